#!/bin/bash
# Builds the framework from files on disk only (offline) and warms the Go build cache.
set -e
cd "$(dirname "$0")"
export GOFLAGS=-mod=mod GOPROXY=off GOSUMDB=off GOTOOLCHAIN=local
mkdir -p .bin evidence
if [ -d tools/instrument ]; then
  (cd tools/instrument && go1.26.8 build -o ../../.bin/instrument .)
fi
echo "setup ok"
