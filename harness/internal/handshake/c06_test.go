//go:build verif

package handshake

import (
	"bytes"
	"context"
	"errors"
	"fmt"
	"sync"
	"testing"
	"testing/synctest"

	p2pcrypto "github.com/libp2p/go-libp2p/core/crypto"
	"go.uber.org/zap"
	"golang.org/x/crypto/nacl/box"
	"google.golang.org/protobuf/proto"

	"berty.tech/weshnet/v2/internal/verifsim/kernel"
	"berty.tech/weshnet/v2/internal/verifsim/sched"
	"berty.tech/weshnet/v2/pkg/cryptoutil"
)

// C06: the contact-request handshake authenticates both parties against any peer behaviour.
// Honest requester and responder instances run the real handshake code as goroutines inside a
// synctest bubble; every frame they write goes to the adversary (the simulated transport), which
// decides what the other side reads: faithful relay, bit flips / truncation / oversize of every
// frame, drops, replay of every frame recorded in earlier sessions of the same run, reflection,
// low-order and non-canonical X25519 points as ephemeral keys, foreign identity key types, wrong
// target keys, negative acknowledge, and the adversary as a legitimate endpoint with its own key.
// Oracle: matching conversations (appendix B.5).

type c06party struct {
	name string
	sk   p2pcrypto.PrivKey
	pk   p2pcrypto.PubKey
	raw  []byte
}

func c06newParty(name string) *c06party {
	sk, pk, _ := p2pcrypto.GenerateEd25519Key(nil)
	raw, _ := pk.Raw()
	return &c06party{name, sk, pk, raw}
}

type c06inst struct {
	role     string // requester / responder
	owner    *c06party
	target   p2pcrypto.PubKey // requester only
	in       chan []byte
	closed   bool
	mu       sync.Mutex
	sent     [][]byte
	received [][]byte
	pending  [][]byte // frames written, not yet taken by the adversary
	done     bool
	err      error
	peerKey  p2pcrypto.PubKey // responder result
}

func (i *c06inst) WriteMsg(m proto.Message) error {
	b, err := proto.Marshal(m)
	if err != nil {
		return err
	}
	i.mu.Lock()
	i.sent = append(i.sent, b)
	i.pending = append(i.pending, b)
	i.mu.Unlock()
	return nil
}

func (i *c06inst) ReadMsg(m proto.Message) error {
	b, ok := <-i.in
	if !ok {
		return errors.New("stream closed")
	}
	i.mu.Lock()
	i.received = append(i.received, b)
	i.mu.Unlock()
	return proto.Unmarshal(b, m)
}

func (i *c06inst) take() [][]byte {
	i.mu.Lock()
	defer i.mu.Unlock()
	p := i.pending
	i.pending = nil
	return p
}

func (i *c06inst) closeIn() {
	if !i.closed {
		i.closed = true
		close(i.in)
	}
}

// the small-order points of Curve25519 (u-coordinates) and non-canonical encodings of some of them
var c06lowOrder = [][]byte{
	c06hex("0000000000000000000000000000000000000000000000000000000000000000"),
	c06hex("0100000000000000000000000000000000000000000000000000000000000000"),
	c06hex("e0eb7a7c3b41b8ae1656e3faf19fc46ada098deb9c32b1fd866205165f49b800"),
	c06hex("5f9c95bca3508c24b1d0b1559c83ef5b04445cc4581c8e86d8224eddd09f1157"),
	c06hex("ecffffffffffffffffffffffffffffffffffffffffffffffffffffffffffff7f"),
	c06hex("edffffffffffffffffffffffffffffffffffffffffffffffffffffffffffff7f"),
	c06hex("eeffffffffffffffffffffffffffffffffffffffffffffffffffffffffffff7f"),
	c06hex("cdeb7a7c3b41b8ae1656e3faf19fc46ada098deb9c32b1fd866205165f49b880"),
	c06hex("4c9c95bca3508c24b1d0b1559c83ef5b04445cc4581c8e86d8224eddd09f11d7"),
	c06hex("d9ffffffffffffffffffffffffffffffffffffffffffffffffffffffffffffff"),
	c06hex("daffffffffffffffffffffffffffffffffffffffffffffffffffffffffffffff"),
	c06hex("dbffffffffffffffffffffffffffffffffffffffffffffffffffffffffffffff"),
	// the seven canonical encodings with the (ignored) top bit set
	c06hex("0000000000000000000000000000000000000000000000000000000000000080"),
	c06hex("0100000000000000000000000000000000000000000000000000000000000080"),
	c06hex("e0eb7a7c3b41b8ae1656e3faf19fc46ada098deb9c32b1fd866205165f49b880"),
	c06hex("5f9c95bca3508c24b1d0b1559c83ef5b04445cc4581c8e86d8224eddd09f11d7"),
	c06hex("ecffffffffffffffffffffffffffffffffffffffffffffffffffffffffffffff"),
	c06hex("edffffffffffffffffffffffffffffffffffffffffffffffffffffffffffffff"),
	c06hex("eeffffffffffffffffffffffffffffffffffffffffffffffffffffffffffffff"),
}

func c06hex(s string) []byte {
	out := make([]byte, len(s)/2)
	for i := range out {
		fmt.Sscanf(s[2*i:2*i+2], "%02x", &out[i])
	}
	return out
}

type c06run struct {
	claimedReq  map[*c06inst]*c06inst // requester instance -> the responder instance that accepted it
	claimedResp map[*c06inst]*c06inst // responder instance -> the requester instance that succeeded against it
	sessions    [][2]*c06inst         // completed honest relays (requester, responder)
	r        *kernel.Run
	honest   []*c06party
	adv      *c06party
	insts    []*c06inst
	recorded [][]byte // every frame any honest instance ever wrote
}

func TestVerifC06(t *testing.T) {
	kernel.InstallCrypto(t)
	kernel.Component("internal/handshake request/response state machines, cryptoutil key conversion", "real")
	kernel.Component("stream between the parties", "simulated (frame-level adversarial transport)")
	kernel.Component("adversary", "simulated (attack catalogue: scripted strategies holding its own account key and everything it saw)")
	kernel.Check(t, "C06", func(r *kernel.Run) {
		seed := r.Uint64("cryptoseed")
		r.Words(600)
		res := sched.Bubble(t, func() { c06session(r, seed) })
		if res != "" && !r.Failed() {
			r.Violate("panic", "handshake-panicked", "a handshake goroutine panicked: %s", res)
		}
	})
}

func (c *c06run) start(role string, owner *c06party, target p2pcrypto.PubKey) *c06inst {
	i := &c06inst{role: role, owner: owner, target: target, in: make(chan []byte, 16)}
	c.insts = append(c.insts, i)
	go func() {
		defer func() {
			if p := recover(); p != nil {
				i.mu.Lock()
				i.err = fmt.Errorf("PANIC: %v", p)
				i.done = true
				i.mu.Unlock()
			}
		}()
		var err error
		var pk p2pcrypto.PubKey
		if role == "requester" {
			err = RequestUsingReaderWriter(context.Background(), zap.NewNop(), i, i, owner.sk, target)
		} else {
			pk, err = ResponseUsingReaderWriter(context.Background(), zap.NewNop(), i, i, owner.sk)
		}
		i.mu.Lock()
		i.err, i.peerKey, i.done = err, pk, true
		i.mu.Unlock()
	}()
	return i
}

// sameFrame compares two frames by content: byte-identical, or decoding to the same message (an
// alteration of protobuf framing or of the ignored top bit of an X25519 u-coordinate changes nothing
// either party computes, so the conversation still matches).
func sameFrame(a, b []byte) bool {
	if bytes.Equal(a, b) {
		return true
	}
	var ha, hb HelloPayload
	if proto.Unmarshal(a, &ha) == nil && proto.Unmarshal(b, &hb) == nil && len(ha.EphemeralPubKey) == 32 && len(hb.EphemeralPubKey) == 32 {
		x, y := append([]byte(nil), ha.EphemeralPubKey...), append([]byte(nil), hb.EphemeralPubKey...)
		x[31] &= 0x7f
		y[31] &= 0x7f
		if bytes.Equal(x, y) {
			return true
		}
	}
	var ba, bb BoxEnvelope
	if proto.Unmarshal(a, &ba) == nil && proto.Unmarshal(b, &bb) == nil && len(ba.Box) > 0 && bytes.Equal(ba.Box, bb.Box) {
		return true
	}
	return false
}

func eqFrames(a, b [][]byte, n int) bool {
	if len(a) < n || len(b) < n {
		return false
	}
	for k := 0; k < n; k++ {
		if !sameFrame(a[k], b[k]) {
			return false
		}
	}
	return true
}

// judge applies the matching-conversation oracle to every finished instance.
func (c *c06run) judge(where string) {
	r := c.r
	for _, i := range c.insts {
		i.mu.Lock()
		done, err, pk := i.done, i.err, i.peerKey
		i.mu.Unlock()
		if !done {
			continue
		}
		if err != nil && len(err.Error()) > 5 && err.Error()[:5] == "PANIC" {
			r.Violate("panic", "handshake-panicked", "%s: %s of %s panicked: %v", where, i.role, i.owner.name, err)
			return
		}
		if err != nil {
			continue
		}
		if i.role == "responder" {
			raw, _ := pk.Raw()
			if pk.Equals(c.adv.pk) {
				continue // the adversary authenticated as itself: it holds that key
			}
			var who *c06party
			for _, h := range c.honest {
				if bytes.Equal(h.raw, raw) && pk.Type() == h.pk.Type() {
					who = h
				}
			}
			if who == nil {
				r.Violate("responder", "unknown-key-reported", "%s: responder %s reports an account key that nobody in the run holds", where, i.owner.name)
				return
			}
			ok := false
			for _, q := range c.insts {
				if q.role == "requester" && q.owner == who && q.target.Equals(i.owner.pk) {
					q.mu.Lock()
					// responder received frames 0 (hello) and 1 (authenticate) from q, q received the responder's hello
					m := eqFrames(q.sent, i.received, 2) && eqFrames(i.sent, q.received, 1)
					q.mu.Unlock()
					// one requester session proves possession to ONE responder session ("in this very session")
					if m && (c.claimedReq[q] == nil || c.claimedReq[q] == i) {
						c.claimedReq[q] = i
						ok = true
						break
					}
				}
			}
			if !ok {
				r.Violate("responder", "peer-not-authenticated-in-this-session", "%s: responder %s reports account %s although no requester instance of %s targeting it produced the frames of this session (no proof of possession in this very session)", where, i.owner.name, who.name, who.name)
				return
			}
			r.Probe("responder_accepted")
		} else {
			if i.target.Equals(c.adv.pk) {
				continue // the requester wanted to reach the adversary's account and did
			}
			var who *c06party
			for _, h := range c.honest {
				if i.target.Equals(h.pk) {
					who = h
				}
			}
			if who == nil {
				r.Violate("requester", "succeeded-towards-key-nobody-holds", "%s: requester %s succeeded towards a target key nobody holds", where, i.owner.name)
				return
			}
			ok := false
			for _, q := range c.insts {
				if q.role == "responder" && q.owner == who {
					q.mu.Lock()
					m := eqFrames(i.sent, q.received, 2) && eqFrames(q.sent, i.received, 2)
					q.mu.Unlock()
					if m && (c.claimedResp[q] == nil || c.claimedResp[q] == i) {
						c.claimedResp[q] = i
						ok = true
						break
					}
				}
			}
			if !ok {
				r.Violate("requester", "peer-does-not-hold-target-key", "%s: requester %s succeeded towards %s although no responder instance of %s took part in a matching session", where, i.owner.name, who.name, who.name)
				return
			}
			r.Probe("requester_succeeded")
		}
	}
}

func c06session(r *kernel.Run, seed uint64) {
	kernel.SeedCrypto(seed)
	c := &c06run{r: r, claimedReq: map[*c06inst]*c06inst{}, claimedResp: map[*c06inst]*c06inst{}}
	nh := 2 + r.Choose(3)
	for i := 0; i < nh; i++ {
		c.honest = append(c.honest, c06newParty(fmt.Sprintf("H%d", i)))
	}
	c.adv = c06newParty("M")
	nsess := 1 + r.Choose(6)
	r.Logf("honest accounts=%d sessions=%d", nh, nsess)
	defer func() {
		for _, i := range c.insts {
			i.closeIn()
		}
		synctest.Wait()
	}()
	for s := 0; s < nsess && !r.Failed(); s++ {
		kind := r.Choose(10)
		a := c.honest[r.Choose(nh)]
		b := c.honest[r.Choose(nh)]
		for b == a {
			b = c.honest[r.Choose(nh)]
		}
		switch kind {
		case 0, 1, 2, 3:
			c.relay(s, a, b, kind)
		case 4:
			c.advResponder(s, a)
		case 5:
			c.advRequester(s, b)
		case 6:
			c.lowOrderRelay(s, a, b)
		case 7:
			c.wrongTargetOrForeign(s, a, b)
		case 8:
			c.replayInjection(s, a, b)
		default:
			c.fullSessionReplay(s, a, b)
		}
		c.judge(fmt.Sprintf("session %d", s))
	}
}

// pump moves frames between two honest instances through the adversary's mutation function until
// nothing moves any more. mutate(dir, idx, frame) returns the frames to deliver (nil = drop).
func (c *c06run) pump(x, y *c06inst, mutate func(fromX bool, idx int, f []byte) [][]byte) {
	nx, ny := 0, 0
	for round := 0; round < 40; round++ {
		synctest.Wait()
		moved := false
		for _, f := range x.take() {
			c.recorded = append(c.recorded, f)
			for _, g := range mutate(true, nx, f) {
				if !y.closed {
					y.in <- g
				}
			}
			nx++
			moved = true
		}
		for _, f := range y.take() {
			c.recorded = append(c.recorded, f)
			for _, g := range mutate(false, ny, f) {
				if !x.closed {
					x.in <- g
				}
			}
			ny++
			moved = true
		}
		c.r.Step()
		if !moved {
			break
		}
	}
	x.closeIn()
	y.closeIn()
	synctest.Wait()
}

// relay: honest requester a -> honest responder b through the adversary, with at most one fault.
func (c *c06run) relay(s int, a, b *c06party, kind int) {
	r := c.r
	req := c.start("requester", a, b.pk)
	resp := c.start("responder", b, nil)
	fault := "none"
	fDir, fIdx := true, 0
	if kind != 0 {
		fault = []string{"bitflip", "truncate", "oversize", "drop", "duplicate", "neg-ack", "loworder-hello", "reflect"}[r.Choose(8)]
		fDir = r.Choose(2) == 0
		fIdx = r.Choose(3)
	}
	param := r.Choose(4096)
	r.Logf("session %d: relay %s -> %s fault=%s dir_from_requester=%v frame=%d", s, a.name, b.name, fault, fDir, fIdx)
	if fault != "none" {
		r.Fault("frame_" + fault)
	}
	applied := false
	c.pump(req, resp, func(fromX bool, idx int, f []byte) [][]byte {
		if fault == "none" || fromX != fDir || idx != fIdx {
			return [][]byte{f}
		}
		applied = true
		switch fault {
		case "bitflip":
			if len(f) == 0 {
				return [][]byte{f}
			}
			g := append([]byte(nil), f...)
			g[(param/8)%len(g)] ^= 1 << (param % 8)
			return [][]byte{g}
		case "truncate":
			return [][]byte{f[:len(f)/2]}
		case "oversize":
			big, _ := proto.Marshal(&BoxEnvelope{Box: kernel.DetBytes(uint64(param), 4096)})
			return [][]byte{big}
		case "drop":
			return nil
		case "duplicate":
			return [][]byte{f, f}
		case "neg-ack":
			if fromX && idx == 2 {
				na, _ := proto.Marshal(&RequesterAcknowledgePayload{Success: false})
				return [][]byte{na}
			}
			return [][]byte{f}
		case "loworder-hello":
			if idx == 0 {
				lo, _ := proto.Marshal(&HelloPayload{EphemeralPubKey: c06lowOrder[param%len(c06lowOrder)]})
				return [][]byte{lo}
			}
			return [][]byte{f}
		case "reflect":
			// the frame is not forwarded; instead the sender gets its own frame back
			if fromX {
				if !req.closed {
					req.in <- f
				}
			} else if !resp.closed {
				resp.in <- f
			}
			return nil
		}
		return [][]byte{f}
	})
	if fault == "none" || !applied {
		// completeness: honest parties, right target, faithful transport
		if req.err != nil || resp.err != nil {
			r.Violate("completeness", "honest-handshake-failed", "session %d: faithful relay between honest %s and %s failed: requester %v, responder %v", s, a.name, b.name, req.err, resp.err)
			return
		}
		if resp.peerKey == nil || !resp.peerKey.Equals(a.pk) {
			r.Violate("completeness", "wrong-key-learned", "session %d: the responder learned a key different from the requester's", s)
			return
		}
		r.Probe("honest_handshake_completed")
		c.sessions = append(c.sessions, [2]*c06inst{req, resp})
	}
}

// fullSessionReplay: an eavesdropper who holds no key replays, frame by frame, everything one side of an
// earlier honest session said to a FRESH instance of the other side (same account), right away.
func (c *c06run) fullSessionReplay(s int, a, b *c06party) {
	r := c.r
	if len(c.sessions) == 0 {
		c.relay(s, a, b, 0)
		if len(c.sessions) == 0 {
			return
		}
	}
	old := c.sessions[r.Choose(len(c.sessions))]
	toResponder := r.Choose(2) == 0
	r.Fault("full_session_replay")
	if toResponder {
		resp := c.start("responder", old[1].owner, nil)
		r.Logf("session %d: every frame %s sent in an earlier session replayed to a fresh responder of %s", s, old[0].owner.name, old[1].owner.name)
		old[0].mu.Lock()
		frames := append([][]byte(nil), old[0].sent...)
		old[0].mu.Unlock()
		for _, f := range frames {
			synctest.Wait()
			resp.take()
			if !resp.closed {
				resp.in <- f
			}
		}
		synctest.Wait()
		resp.closeIn()
	} else {
		req := c.start("requester", old[0].owner, old[1].owner.pk)
		r.Logf("session %d: every frame %s sent in an earlier session replayed to a fresh requester of %s", s, old[1].owner.name, old[0].owner.name)
		old[1].mu.Lock()
		frames := append([][]byte(nil), old[1].sent...)
		old[1].mu.Unlock()
		for _, f := range frames {
			synctest.Wait()
			req.take()
			if !req.closed {
				req.in <- f
			}
		}
		synctest.Wait()
		req.closeIn()
	}
	synctest.Wait()
}

// advResponder: honest requester a wants to reach the adversary's account; the adversary answers with its own key.
func (c *c06run) advResponder(s int, a *c06party) {
	r := c.r
	req := c.start("requester", a, c.adv.pk)
	resp := c.start("responder", c.adv, nil) // the adversary runs the real responder code with its own key
	r.Logf("session %d: %s requests the adversary's account", s, a.name)
	c.pump(req, resp, func(fromX bool, idx int, f []byte) [][]byte { return [][]byte{f} })
	r.Fault("adversary_as_legitimate_responder")
}

func (c *c06run) advRequester(s int, b *c06party) {
	r := c.r
	req := c.start("requester", c.adv, b.pk)
	resp := c.start("responder", b, nil)
	r.Logf("session %d: the adversary requests %s under its own account", s, b.name)
	c.pump(req, resp, func(fromX bool, idx int, f []byte) [][]byte { return [][]byte{f} })
	r.Fault("adversary_as_legitimate_requester")
}

// lowOrderRelay is the cross-session attack with degenerate ephemeral keys: the adversary, as the
// legitimate responder of a session with honest A (A targets the adversary), answers with a low-order
// ephemeral key, learns sig_A over the resulting constant, and then plays requester towards honest B
// with a low-order ephemeral key of its own, presenting A's account key and the recorded signature.
func (c *c06run) lowOrderRelay(s int, a, b *c06party) {
	r := c.r
	pt := c06lowOrder[r.Choose(len(c06lowOrder))]
	r.Logf("session %d: low-order relay attack, victim %s, target %s, point %x", s, a.name, b.name, pt[:4])
	r.Fault("low_order_ephemeral")
	// phase 1: A requests the adversary; the adversary answers hello with the low-order point
	req := c.start("requester", a, c.adv.pk)
	synctest.Wait()
	fr := req.take()
	if len(fr) != 1 {
		return
	}
	c.recorded = append(c.recorded, fr...)
	var helloA HelloPayload
	if proto.Unmarshal(fr[0], &helloA) != nil {
		return
	}
	lo, _ := proto.Marshal(&HelloPayload{EphemeralPubKey: pt})
	req.in <- lo
	synctest.Wait()
	fr = req.take()
	if len(fr) != 1 { // the requester refused the degenerate key: attack stopped (that is the secure behaviour)
		req.closeIn()
		synctest.Wait()
		r.Probe("low_order_key_refused")
		return
	}
	c.recorded = append(c.recorded, fr...)
	// the adversary is the legitimate responder: it can open the authenticate box
	var envl BoxEnvelope
	if proto.Unmarshal(fr[0], &envl) != nil {
		req.closeIn()
		return
	}
	aEph, _ := cryptoutil.KeySliceToArray(helloA.EphemeralPubKey)
	ptArr, _ := cryptoutil.KeySliceToArray(pt)
	var sharedEph, zeroPriv [32]byte
	box.Precompute(&sharedEph, ptArr, &zeroPriv) // DH with a low-order point is the zero point whatever the scalar
	advMont, _ := cryptoutil.EdwardsToMontgomeryPriv(c.adv.sk)
	var s2 [32]byte
	box.Precompute(&s2, aEph, advMont)
	key := cryptoutil.ConcatAndHashSha256(sharedEph[:], s2[:])
	plain, ok := box.OpenAfterPrecomputation(nil, envl.Box, &nonceRequesterAuthenticate, key)
	req.closeIn()
	synctest.Wait()
	if !ok {
		return
	}
	var auth RequesterAuthenticatePayload
	if proto.Unmarshal(plain, &auth) != nil {
		return
	}
	r.Probe("victim_signature_over_constant_obtained")
	// phase 2: towards honest B with a degenerate ephemeral key, replaying A's identity and signature
	resp := c.start("responder", b, nil)
	resp.in <- lo
	synctest.Wait()
	fr = resp.take()
	if len(fr) != 1 {
		resp.closeIn()
		synctest.Wait()
		r.Probe("low_order_key_refused")
		return
	}
	bMontPub, _ := cryptoutil.EdwardsToMontgomeryPub(b.pk)
	_ = bMontPub
	var s3 [32]byte
	box.Precompute(&s3, ptArr, &zeroPriv) // responder computes Precompute(peerEphemeral=low order, own account key) = same constant
	key2 := cryptoutil.ConcatAndHashSha256(sharedEph[:], s3[:])
	forged := box.SealAfterPrecomputation(nil, plain, &nonceRequesterAuthenticate, key2)
	fb, _ := proto.Marshal(&BoxEnvelope{Box: forged})
	resp.in <- fb
	synctest.Wait()
	resp.take()
	ack, _ := proto.Marshal(&RequesterAcknowledgePayload{Success: true})
	resp.in <- ack
	synctest.Wait()
	resp.closeIn()
	synctest.Wait()
}

func (c *c06run) wrongTargetOrForeign(s int, a, b *c06party) {
	r := c.r
	switch r.Choose(3) {
	case 0: // the requester targets a key that nobody holds, relayed to an honest responder
		_, ghost, _ := p2pcrypto.GenerateEd25519Key(nil)
		req := c.start("requester", a, ghost)
		resp := c.start("responder", b, nil)
		r.Logf("session %d: %s targets a key nobody holds, relayed to %s", s, a.name, b.name)
		r.Fault("wrong_target_key")
		c.pump(req, resp, func(fromX bool, idx int, f []byte) [][]byte { return [][]byte{f} })
	case 1: // requester with a foreign identity key type
		sk, _, _ := p2pcrypto.GenerateSecp256k1Key(nil)
		pk := sk.GetPublic()
		raw, _ := pk.Raw()
		f := &c06party{"F", sk, pk, raw}
		req := c.start("requester", f, b.pk)
		resp := c.start("responder", b, nil)
		r.Logf("session %d: requester with a secp256k1 identity towards %s", s, b.name)
		r.Fault("foreign_identity_key_type")
		c.pump(req, resp, func(fromX bool, idx int, f []byte) [][]byte { return [][]byte{f} })
		if resp.err == nil && resp.peerKey != nil && resp.peerKey.Type() != a.pk.Type() {
			r.Violate("responder", "foreign-key-type-reported", "session %d: the responder reports a non-Ed25519 account key", s)
		}
	default: // requester targets a foreign key type
		_, pk, _ := p2pcrypto.GenerateSecp256k1Key(nil)
		req := c.start("requester", a, pk)
		resp := c.start("responder", b, nil)
		r.Logf("session %d: %s targets a secp256k1 key", s, a.name)
		r.Fault("foreign_target_key_type")
		c.pump(req, resp, func(fromX bool, idx int, f []byte) [][]byte { return [][]byte{f} })
	}
}

// replayInjection replaces one frame of a relayed session by a frame recorded earlier in this run.
func (c *c06run) replayInjection(s int, a, b *c06party) {
	r := c.r
	if len(c.recorded) == 0 {
		c.relay(s, a, b, 0)
		return
	}
	old := c.recorded[r.Choose(len(c.recorded))]
	fDir := r.Choose(2) == 0
	fIdx := r.Choose(3)
	req := c.start("requester", a, b.pk)
	resp := c.start("responder", b, nil)
	r.Logf("session %d: relay %s -> %s with a recorded frame (%d bytes) replayed at dir_from_requester=%v frame=%d", s, a.name, b.name, len(old), fDir, fIdx)
	r.Fault("cross_session_replay")
	c.pump(req, resp, func(fromX bool, idx int, f []byte) [][]byte {
		if fromX == fDir && idx == fIdx {
			return [][]byte{old}
		}
		return [][]byte{f}
	})
}
