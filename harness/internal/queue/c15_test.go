//go:build verif

package queue

import (
	"context"
	"fmt"
	"sort"
	"sync"
	"sync/atomic"
	"testing"
	"time"

	"github.com/anishathalye/porcupine"

	"berty.tech/weshnet/v2/internal/verifsim/kernel"
	"berty.tech/weshnet/v2/internal/verifsim/sched"
)

// C15: SimpleQueue is FIFO, exactly-once, and never loses a wake-up under any interleaving of
// producers, consumer and cancellation; PriorityQueue yields the smallest counter and loses or
// duplicates nothing. The queue sources are instrumented at check time (scheduling points at every
// lock, unlock and select); the schedule is a seeded choice and replays exactly.

type c15item struct{ c uint64 }

func (i c15item) Counter() uint64 { return i.c }

type c15in struct {
	op  string // add, wait, pop, padd, pnext, pall, psize
	arg int
}
type c15out struct {
	val  int
	ok   bool
	vals []int
}

var c15fifo = porcupine.Model{
	Init: func() interface{} { return "" },
	Step: func(state, input, output interface{}) (bool, interface{}) {
		st := state.(string) // queue as a string of item bytes
		in, out := input.(c15in), output.(c15out)
		switch in.op {
		case "add":
			return true, st + string(rune('A'+in.arg))
		case "wait":
			if !out.ok {
				return true, st // cancelled wait: no item, queue unchanged
			}
			if len(st) > 0 && int(st[0]-'A') == out.val {
				return true, st[1:]
			}
			return false, st
		case "pop":
			if len(st) == 0 {
				return !out.ok, st
			}
			if out.ok && int(st[0]-'A') == out.val {
				return true, st[1:]
			}
			return false, st
		}
		return false, st
	},
	Equal: func(a, b interface{}) bool { return a.(string) == b.(string) },
}

// priority queue model: sorted multiset of counters encoded as a string of bytes
var c15prio = porcupine.Model{
	Init: func() interface{} { return "" },
	Step: func(state, input, output interface{}) (bool, interface{}) {
		st := []byte(state.(string))
		in, out := input.(c15in), output.(c15out)
		switch in.op {
		case "padd":
			st = append(st, byte(in.arg))
			sort.Slice(st, func(i, j int) bool { return st[i] < st[j] })
			return true, string(st)
		case "pnext":
			if len(st) == 0 {
				return !out.ok, string(st)
			}
			return out.ok && out.val == int(st[0]), string(st[1:])
		case "pall":
			if len(out.vals) != len(st) {
				return false, string(st)
			}
			for i := range st {
				if int(st[i]) != out.vals[i] {
					return false, string(st)
				}
			}
			return true, ""
		case "psize":
			return out.val == len(st), string(st)
		}
		return false, string(st)
	},
	Equal: func(a, b interface{}) bool { return a.(string) == b.(string) },
}

func TestVerifC15(t *testing.T) { c15test(t, "C15") }

// TestVerifC08Q runs the same queue scenarios as a part of C08: the message pipeline parks messages in a priority
// queue per sender and hands them back through the simple queue; "no message stays parked, none is lost or delivered
// twice, whatever the schedule" rests on these two queues under concurrent Add / NextAll / WaitForItem.
func TestVerifC08Q(t *testing.T) { c15test(t, "C08") }

func c15test(t *testing.T, property string) {
	kernel.Component("internal/queue SimpleQueue and PriorityQueue", "real (instrumented copy of the working tree)")
	kernel.Component("goroutine scheduling at lock/unlock/select", "simulated (seeded cooperative scheduler in a synctest bubble)")
	kernel.Check(t, property, func(r *kernel.Run) {
		mode := r.Pick("mode", 4)
		if property == "C08" {
			mode = 2 + r.Pick("c08mode", 2) // the simple queue with a waiting consumer, and the priority queue
		}
		strategy := r.Pick("strategy", 3)
		r.Words(384)
		var res string
		if mode == 3 {
			res = sched.Bubble(t, func() { c15priority(r, strategy) })
		} else {
			nprod := 1 + r.Choose(2)
			nitems := 1 + r.Choose(3)
			cancel := r.Choose(3) == 2
			withPop := r.Choose(4) == 3
			res = sched.Bubble(t, func() { c15simple(r, strategy, nprod, nitems, cancel, withPop) })
		}
		if res != "" && !r.Failed() {
			r.Infra("bubble panicked: %s", res)
		}
	})
}

func c15simple(r *kernel.Run, strategy, nprod, nitems int, withCancel, withPop bool) {
	q := NewSimpleQueue[int]("q", &noopTracer[int]{})
	ctx, cancel := context.WithCancel(context.Background())
	defer cancel()
	r.Logf("simple queue: producers=%d items=%d cancel=%v pop=%v strategy=%d", nprod, nitems, withCancel, withPop, strategy)
	var seq atomic.Int64
	var ops []porcupine.Operation
	var hmu sync.Mutex // harness-only lock (never held across a scheduling point)
	record := func(client int, in c15in, call int64, out c15out) {
		hmu.Lock()
		ops = append(ops, porcupine.Operation{ClientId: client, Input: in, Call: call, Output: out, Return: seq.Add(1)})
		hmu.Unlock()
	}
	s := sched.New(r.Choose, strategy, func(f string, a ...any) { r.Logf(f, a...); r.Step() })
	var consumedN atomic.Int64
	cancelled := atomic.Bool{}
	// consumer: takes items until it has all of them or its wait is cancelled
	s.Go("consumer", func() {
		for int(consumedN.Load()) < nitems {
			call := seq.Add(1)
			v, ok := q.WaitForItem(ctx)
			record(0, c15in{op: "wait"}, call, c15out{val: v, ok: ok})
			if !ok {
				return
			}
			consumedN.Add(1)
		}
	})
	next := 0
	for p := 0; p < nprod; p++ {
		share := nitems / nprod
		if p == 0 {
			share += nitems % nprod
		}
		mine := make([]int, share)
		for i := range mine {
			mine[i] = next
			next++
		}
		p := p
		s.Go(fmt.Sprintf("producer%d", p), func() {
			for _, v := range mine {
				call := seq.Add(1)
				q.Add(v)
				record(1+p, c15in{op: "add", arg: v}, call, c15out{})
			}
		})
	}
	if withCancel {
		s.Go("canceller", func() { cancelled.Store(true); cancel() })
	}
	if withPop {
		s.Go("popper", func() {
			call := seq.Add(1)
			v, ok := q.Pop()
			record(9, c15in{op: "pop"}, call, c15out{val: v, ok: ok})
			if ok {
				consumedN.Add(1) // an item taken by Pop is not owed to the consumer any more
			}
		})
	}
	for s.Steps < 400 && s.Step() {
	}
	st := s.Status()
	if s.Preemptions > 0 {
		r.Nontrivial()
		r.Fault("preemption")
	}
	// final quiescent point: nothing is enabled any more
	for _, t := range st.LockBlocked {
		r.Violate("deadlock", "queue-deadlock", "task %s is blocked on a lock at %s held by %s and no task can run", t.Label, t.Site, s.Holder(t))
	}
	for _, t := range st.RealBlocked {
		if t.Label != "consumer" {
			r.Violate("stuck", "producer-stuck", "task %s is blocked in %s", t.Label, t.BlockedIn())
			continue
		}
		r.Probe("consumer_blocked_at_end")
		if cancelled.Load() {
			r.Violate("cancel", "cancelled-wait-blocked", "the consumer's context was cancelled but WaitForItem is still blocked in %s", t.BlockedIn())
		} else if n := q.list.Len(); n > 0 {
			r.Violate("lost-wakeup", "consumer-blocked-on-nonempty-queue", "the consumer is blocked in %s while the queue holds %d item(s) and every producer has finished", t.BlockedIn(), n)
		}
	}
	consumed := int(consumedN.Load())
	if !r.Failed() && !cancelled.Load() && consumed != nitems {
		r.Violate("delivery", "items-not-delivered", "%d of %d items delivered although nothing was cancelled", consumed, nitems)
	}
	if withCancel && cancelled.Load() {
		r.Fault("cancellation")
	}
	cancel()
	s.Abort()
	if r.Failed() {
		return
	}
	switch porcupine.CheckOperationsTimeout(c15fifo, ops, 10*time.Second) {
	case porcupine.Illegal:
		r.Violate("linearizability", "fifo-history-illegal", "history is not linearizable against the FIFO queue model: %v", c15fmt(ops))
	case porcupine.Unknown:
		r.Probe("porcupine_inconclusive")
	default:
		r.Probe("history_linearizable")
	}
}

func c15fmt(ops []porcupine.Operation) string {
	out := ""
	for _, o := range ops {
		out += fmt.Sprintf("[c%d %v@%d -> %v@%d] ", o.ClientId, o.Input, o.Call, o.Output, o.Return)
	}
	return out
}

func c15priority(r *kernel.Run, strategy int) {
	pq := NewPriorityQueue[c15item]("pq", &noopTracer[c15item]{})
	ntasks := 1 + r.Choose(2)
	r.Logf("priority queue: tasks=%d strategy=%d", ntasks, strategy)
	var seq atomic.Int64
	var ops []porcupine.Operation
	var hmu sync.Mutex
	s := sched.New(r.Choose, strategy, func(f string, a ...any) { r.Logf(f, a...); r.Step() })
	for tk := 0; tk < ntasks; tk++ {
		tk := tk
		nops := 1 + r.Choose(6)
		plan := make([][2]int, nops)
		for i := range plan {
			plan[i] = [2]int{r.Choose(6), 1 + r.Choose(9)}
		}
		r.Logf("task %d plan %v", tk, plan)
		s.Go(fmt.Sprintf("t%d", tk), func() {
			for _, p := range plan {
				call := seq.Add(1)
				var in c15in
				var out c15out
				switch {
				case p[0] <= 2:
					in = c15in{op: "padd", arg: p[1]}
					pq.Add(c15item{uint64(p[1])})
				case p[0] == 3:
					in = c15in{op: "pnext"}
					it := pq.Next()
					out = c15out{val: int(it.c), ok: it.c != 0}
				case p[0] == 4:
					in = c15in{op: "pall"}
					_ = pq.NextAll(func(n c15item) error { out.vals = append(out.vals, int(n.c)); return nil })
				default:
					in = c15in{op: "psize"}
					out = c15out{val: pq.Size()}
				}
				hmu.Lock()
				ops = append(ops, porcupine.Operation{ClientId: tk, Input: in, Call: call, Output: out, Return: seq.Add(1)})
				hmu.Unlock()
			}
		})
	}
	for s.Steps < 600 && s.Step() {
	}
	st := s.Status()
	if s.Preemptions > 0 {
		r.Nontrivial()
		r.Fault("preemption")
	}
	for _, t := range st.LockBlocked {
		r.Violate("deadlock", "queue-deadlock", "task %s is blocked on a lock at %s held by %s", t.Label, t.Site, s.Holder(t))
	}
	for _, t := range st.RealBlocked {
		r.Violate("stuck", "task-stuck", "task %s is blocked in %s", t.Label, t.BlockedIn())
	}
	s.Abort()
	if r.Failed() {
		return
	}
	r.Probe("priority_queue_run")
	switch porcupine.CheckOperationsTimeout(c15prio, ops, 10*time.Second) {
	case porcupine.Illegal:
		r.Violate("linearizability", "priority-history-illegal", "history is not linearizable against the priority queue model: %v", c15fmt(ops))
	case porcupine.Unknown:
		r.Probe("porcupine_inconclusive")
	}
}
