//go:build verif

package secretstore

import (
	"context"
	"fmt"

	"github.com/ipfs/go-cid"
	"github.com/libp2p/go-libp2p/core/crypto"
)

// VerifMessageKey hands out the message key a store holds for (group, device, counter): what any member that
// registered the sender's chain key can compute. Used by the Byzantine member of the verification harness;
// injected through the build overlay only.
func VerifMessageKey(ctx context.Context, st SecretStore, groupPK, devicePK crypto.PubKey, counter uint64, entry cid.Cid) (*[32]byte, error) {
	s, ok := st.(*secretStore)
	if !ok {
		return nil, fmt.Errorf("not a *secretStore")
	}
	mk, err := s.getPrecomputedMessageKey(ctx, groupPK, devicePK, counter)
	if err != nil && entry.Defined() {
		// the member's own pipeline already opened that entry: the key is filed under the entry's CID
		mk, err = s.getKeyForCID(ctx, entry)
	}
	if err != nil {
		return nil, err
	}
	return (*[32]byte)(mk), nil
}

// VerifCounterNonce is the payload nonce of a counter.
func VerifCounterNonce(counter uint64) *[24]byte { return uint64AsNonce(counter) }
