//go:build verif

package queue

// VerifLen reports the number of queued items (observation point of the verification harness,
// injected through the build overlay only).
func (q *SimpleQueue[T]) VerifLen() int {
	q.mu.Lock()
	defer q.mu.Unlock()
	return q.list.Len()
}
