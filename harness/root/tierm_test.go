//go:build verif

package weshnet

import (
	"bytes"
	"context"
	"crypto/sha256"
	"encoding/hex"
	"fmt"
	"os"
	"sort"
	"strings"
	"testing/synctest"
	"time"

	"github.com/libp2p/go-libp2p/core/crypto"
	"github.com/libp2p/go-libp2p/core/peer"
	"github.com/prometheus/client_golang/prometheus"
	"go.uber.org/zap"

	orbitdb "berty.tech/go-orbit-db"
	"berty.tech/weshnet/v2/internal/verifsim/disk"
	"berty.tech/weshnet/v2/internal/verifsim/kernel"
	simnet "berty.tech/weshnet/v2/internal/verifsim/net"
	"berty.tech/weshnet/v2/pkg/protocoltypes"
	"berty.tech/weshnet/v2/pkg/secretstore"
)

// Tier M infrastructure: real WeshOrbitDB replicas (real go-orbit-db base store, replicator and
// go-ipfs-log, real metadata/message stores, real secret store on SimDisk) over SimNet/SimDag inside
// one synctest bubble. The simulator owns every external event; observations are taken at quiescence.

type vnode struct {
	name   string
	nn     *simnet.Node
	ssDisk *disk.Disk
	dbDisk *disk.Disk
	ss     secretstore.SecretStore
	odb    *WeshOrbitDB
	ctx    context.Context
	cancel context.CancelFunc
	gcs    map[string]*GroupContext
	window int
}

type vsim struct {
	r     *kernel.Run
	w     *simnet.World
	nodes []*vnode
	// fault knobs (per run)
	dropRate, dupRate int // in 1/64
	delivered         int
}

func newVSim(r *kernel.Run) *vsim {
	return &vsim{r: r, w: simnet.NewWorld()}
}

func (s *vsim) addNode(name string, window int) (*vnode, error) {
	_, pub, err := crypto.GenerateEd25519Key(nil)
	if err != nil {
		return nil, err
	}
	pid, err := peer.IDFromPublicKey(pub)
	if err != nil {
		return nil, err
	}
	n := &vnode{name: name, ssDisk: disk.New(), dbDisk: disk.New(), gcs: map[string]*GroupContext{}, window: window}
	n.nn = s.w.AddNode(name, pid)
	if err := n.start(); err != nil {
		return nil, err
	}
	s.nodes = append(s.nodes, n)
	return n, nil
}

// start (re)creates the secret store and the orbitdb instance of a node on its durable state.
func (n *vnode) start() error {
	ss, err := secretstore.NewSecretStore(n.ssDisk, &secretstore.NewSecretStoreOptions{PreComputedKeysCount: n.window})
	if err != nil {
		return err
	}
	n.ss = ss
	n.ctx, n.cancel = context.WithCancel(context.Background())
	odb, err := NewWeshOrbitDB(n.ctx, n.nn, &NewOrbitDBOptions{
		NewOrbitDBOptions: orbitdb.NewOrbitDBOptions{
			Logger:               zap.NewNop(),
			PubSub:               n.nn.PubSubIface(),
			DirectChannelFactory: n.nn.DirectChannelFactory(),
		},
		Datastore:          n.dbDisk,
		SecretStore:        ss,
		PrometheusRegister: prometheus.NewRegistry(),
	})
	if err != nil {
		return err
	}
	n.odb = odb
	n.gcs = map[string]*GroupContext{}
	return nil
}

func (n *vnode) openGroup(g *protocoltypes.Group) (*GroupContext, error) {
	if gc, ok := n.gcs[g.GroupIDAsString()]; ok && !gc.IsClosed() {
		return gc, nil
	}
	gc, err := n.odb.OpenGroup(n.ctx, g, nil)
	if err != nil {
		return nil, err
	}
	n.gcs[g.GroupIDAsString()] = gc
	return gc, nil
}

// stop closes the node's groups and orbitdb (clean close).
func (n *vnode) stop() {
	for _, gc := range n.gcs {
		_ = gc.Close()
	}
	n.gcs = map[string]*GroupContext{}
	if n.odb != nil {
		_ = n.odb.Close()
	}
	n.cancel()
}

// importAccountFrom makes n another device of o's account (n must be fresh).
func (n *vnode) importAccountFrom(o *vnode) error {
	sk, proof, err := o.ss.ExportAccountKeysForBackup()
	if err != nil {
		return err
	}
	return n.ss.ImportAccountKeys(sk, proof)
}

func (s *vsim) connectAll() {
	for i := range s.nodes {
		for j := i + 1; j < len(s.nodes); j++ {
			s.w.Connect(i, j)
		}
	}
}

func (s *vsim) wait() { synctest.Wait() }

func (s *vsim) describe(m *simnet.Msg) string {
	return fmt.Sprintf("%s %s->%s %s", m.Kind, s.nodes[m.From].name, s.nodes[m.To].name, s.w.TopicName(m.Topic))
}

// netStep delivers (or drops / duplicates, when enabled) one in-flight message or resolves one
// pending block fetch, chosen by the seed among all candidates (any choice other than the oldest
// message is a reordering). Returns false when nothing can move.
func (s *vsim) netStep(faults bool) bool {
	s.wait()
	msgs := s.w.InFlight()
	res, _ := s.w.PendingFetches()
	n := len(msgs) + len(res)
	if n == 0 {
		return false
	}
	c := s.r.Choose(n)
	s.r.Step()
	if c < len(msgs) {
		m := msgs[c]
		if c > 0 {
			s.r.Fault("delivery_choice_not_first")
		}
		for _, o := range msgs {
			if o != m && o.Kind == m.Kind && o.From == m.From && o.To == m.To && o.Topic == m.Topic && o.Seq < m.Seq {
				s.r.Fault("reorder_within_stream")
				break
			}
		}
		if faults && m.Kind != simnet.KindJoin {
			if s.dropRate > 0 && s.r.Choose(64) < s.dropRate {
				s.r.Fault("drop")
				s.r.Logf("drop %s", s.describe(m))
				s.w.Drop(m)
				return true
			}
			if s.dupRate > 0 && s.r.Choose(64) < s.dupRate {
				s.r.Fault("duplicate")
				s.r.Logf("duplicate %s", s.describe(m))
				s.w.Duplicate(m)
			}
		}
		s.r.Logf("deliver %s", s.describe(m))
		s.w.Deliver(m)
		s.delivered++
		s.wait() // the receiver's reaction runs to quiescence before anything else happens
		return true
	}
	f := res[c-len(msgs)]
	if c-len(msgs) > 0 {
		s.r.Fault("fetch_reorder")
	}
	s.r.Logf("fetch %s block%s", s.nodes[f.Node].name, debugCid(f.Cid.String(), len(res)))
	s.w.ResolveFetch(f)
	s.wait()
	return true
}

func minMsgID(ms []*simnet.Msg) int {
	id := ms[0].ID
	for _, m := range ms {
		if m.ID < id {
			id = m.ID
		}
	}
	return id
}

// drain runs network steps until nothing is in flight and nothing is resolvable (bounded).
func (s *vsim) drain(faults bool, max int) int {
	k := 0
	for k < max && s.netStep(faults) {
		k++
	}
	s.wait()
	return k
}

func logCIDs(gc *GroupContext, meta bool) []string {
	var out []string
	if meta {
		for _, e := range gc.MetadataStore().OpLog().GetEntries().Slice() {
			out = append(out, e.GetHash().String())
		}
	} else {
		for _, e := range gc.MessageStore().OpLog().GetEntries().Slice() {
			out = append(out, e.GetHash().String())
		}
	}
	sort.Strings(out)
	return out
}

func sameStrings(a, b []string) bool {
	if len(a) != len(b) {
		return false
	}
	for i := range a {
		if a[i] != b[i] {
			return false
		}
	}
	return true
}

// settle heals the network and runs anti-entropy rounds (every connected pair re-exchanges heads)
// until a full round changes no log (fixpoint). Returns false if the cap of rounds was hit.
func (s *vsim) settle(groups []*protocoltypes.Group) bool {
	s.connectAll()
	prev := ""
	for round := 0; round < 40; round++ {
		s.drain(false, 5000)
		if _, stalled := s.w.PendingFetches(); len(stalled) > 0 {
			s.r.Probe("fetch_stalled_at_fixpoint")
		}
		var sb strings.Builder
		for _, n := range s.nodes {
			for _, g := range groups {
				if gc, ok := n.gcs[g.GroupIDAsString()]; ok {
					fmt.Fprintf(&sb, "%s/%d/%d;", n.name, gc.MetadataStore().OpLog().Len(), gc.MessageStore().OpLog().Len())
				}
			}
		}
		cur := sb.String()
		if cur == prev {
			return true
		}
		prev = cur
		for i := range s.nodes {
			for j := i + 1; j < len(s.nodes); j++ {
				s.w.Rejoin(i, j)
			}
		}
		time.Sleep(time.Second) // let retry timers of the real code fire on the fake clock
		s.r.SimTime(time.Second)
	}
	return false
}

func (s *vsim) shutdown() {
	for _, n := range s.nodes {
		n.stop()
	}
	s.w.CloseAll()
	s.wait()
}

// ---------------------------------------------------------------------------------------------
// state digest (C04): canonical encoding of everything the public getters of a metadata store expose

func pkHex(k crypto.PubKey) string {
	b, _ := k.Raw()
	return hex.EncodeToString(b[:6])
}

func sortedPKs(ks []crypto.PubKey) string {
	out := make([]string, len(ks))
	for i, k := range ks {
		out[i] = pkHex(k)
	}
	sort.Strings(out)
	return strings.Join(out, ",")
}

func metaDigest(m *MetadataStore) string {
	var sb strings.Builder
	contacts := m.ListContacts()
	keys := make([]string, 0, len(contacts))
	for k := range contacts {
		keys = append(keys, k)
	}
	sort.Strings(keys)
	for _, k := range keys {
		c := contacts[k]
		own, _ := m.GetRequestOwnMetadataForContact(c.contact.Pk)
		fmt.Fprintf(&sb, "contact %x state=%s seed=%x meta=%x own=%x;", []byte(k)[:6], c.state, c.contact.PublicRendezvousSeed, c.contact.Metadata, own)
	}
	fmt.Fprintf(&sb, "members=%s;devices=%s;admins=%s;", sortedPKs(m.ListMembers()), sortedPKs(m.ListDevices()), sortedPKs(m.ListAdmins()))
	en, ref := m.GetIncomingContactRequestsStatus()
	var seed []byte
	if ref != nil {
		seed = ref.PublicRendezvousSeed
	}
	fmt.Fprintf(&sb, "cr_enabled=%v cr_seed=%x;", en, seed)
	var groups []string
	for _, g := range m.ListMultiMemberGroups() {
		groups = append(groups, hex.EncodeToString(g.PublicKey[:6]))
	}
	sort.Strings(groups)
	fmt.Fprintf(&sb, "groups=%s;", strings.Join(groups, ","))
	var creds []string
	for _, c := range m.ListVerifiedCredentials() {
		creds = append(creds, c.Identifier+"/"+c.Issuer)
	}
	sort.Strings(creds)
	fmt.Fprintf(&sb, "creds=%s;", strings.Join(creds, ","))
	idx := m.Index().(*metadataStoreIndex)
	idx.lock.RLock()
	fmt.Fprintf(&sb, "alias_own=%v alias_other=%x;", idx.ownAliasKeySent, idx.otherAliasKey)
	idx.lock.RUnlock()
	return sb.String()
}

func shortHash(s string) string {
	h := sha256.Sum256([]byte(s))
	return hex.EncodeToString(h[:6])
}

var _ = bytes.Equal

// debugCid adds the block identifier and the number of resolvable fetches to a trace line when VERIF_DEBUG_CIDS is set
// (development aid for divergence hunting; off by default because identifiers are not abstract names).
func debugCid(c string, n int) string {
	if os.Getenv("VERIF_DEBUG_CIDS") == "" {
		return ""
	}
	return fmt.Sprintf(" %s (of %d resolvable)", c[len(c)-8:], n)
}
