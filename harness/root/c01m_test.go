//go:build verif

package weshnet

import (
	"bytes"
	"context"
	"fmt"
	"testing"
	"time"

	"github.com/ipfs/go-cid"
	"github.com/libp2p/go-libp2p/core/crypto"
	"github.com/libp2p/go-libp2p/p2p/host/eventbus"
	"golang.org/x/crypto/nacl/secretbox"
	"google.golang.org/protobuf/proto"

	"berty.tech/go-orbit-db/stores/operation"
	"berty.tech/weshnet/v2/internal/verifsim/kernel"
	"berty.tech/weshnet/v2/internal/verifsim/sched"
	"berty.tech/weshnet/v2/pkg/cryptoutil"
	"berty.tech/weshnet/v2/pkg/protocoltypes"
	"berty.tech/weshnet/v2/pkg/secretstore"
)

// C01 at its fourth observation point: the GroupMessageEvent emissions of a receiver's real message
// store. Sender S, receiver R and a Byzantine member B (a registered member: it holds the group secret
// and everybody's chain keys, not their device keys) replicate one group's message log over the simulated
// network. S appends genuine messages; B reads them from its replica and appends altered copies and
// forgeries as entries of its own (bit flips, header/ciphertext swaps, re-attribution, payloads forged
// under S's - or R's own - genuine message key with five kinds of signature). The simulator decides what
// reaches R first. Oracle at the fixpoint: every event R's application received carries the payload and
// the sender of a genuine entry with that CID; no entry crafted by B is ever delivered; every genuine
// message is delivered exactly once, whatever forgeries arrived before it.

func TestVerifC01M(t *testing.T) {
	kernel.InstallCrypto(t)
	kernel.Component("MessageStore (pipeline, device caches, event emission), secret store, go-orbit-db base store + replicator, go-ipfs-log", "real")
	kernel.Component("pubsub, direct channel, DAG block exchange, clock", "simulated (SimNet/SimDag/synctest)")
	kernel.Component("Byzantine member", "simulated (crafts log entries from what a member holds)")
	kernel.Check(t, "C01", func(r *kernel.Run) {
		seed := r.Uint64("cryptoseed")
		r.Words(2000)
		res := sched.Bubble(t, func() { c01mrun(r, seed) })
		if res != "" && !r.Failed() {
			r.Infra("bubble panicked: %s", res)
		}
	})
}

func c01mrun(r *kernel.Run, seed uint64) {
	ctx := context.Background()
	kernel.SeedCrypto(seed)
	s := newVSim(r)
	defer s.shutdown()
	s.w.EagerDag = r.Choose(2) == 0
	window := []int{100, 2, 3}[r.Choose(3)]
	for _, name := range []string{"S", "R", "B"} {
		if _, err := s.addNode(name, window); err != nil {
			r.Infra("node: %v", err)
			return
		}
	}
	S, R, B := s.nodes[0], s.nodes[1], s.nodes[2]
	g, _, err := protocoltypes.NewGroupMultiMember()
	if err != nil {
		r.Infra("group: %v", err)
		return
	}
	gid := g.GroupIDAsString()
	gpk, _ := g.GetPubKey()
	for _, n := range s.nodes {
		if _, err := n.openGroup(g); err != nil {
			r.Infra("open: %v", err)
			return
		}
	}
	// every member registers every other member's chain key (out of band: this check is about the message path)
	for _, a := range s.nodes {
		amd, _ := a.ss.GetOwnMemberDeviceForGroup(g)
		for _, b := range s.nodes {
			if a == b {
				continue
			}
			bmd, _ := b.ss.GetOwnMemberDeviceForGroup(g)
			ann, err := a.ss.GetShareableChainKey(ctx, g, bmd.Member())
			if err != nil {
				r.Infra("announcement: %v", err)
				return
			}
			if err := b.ss.RegisterChainKey(ctx, g, amd.Device(), ann); err != nil {
				r.Infra("register: %v", err)
				return
			}
		}
	}
	sub, err := R.gcs[gid].MessageStore().EventBus().Subscribe(new(*protocoltypes.GroupMessageEvent), eventbus.BufSize(8192))
	if err != nil {
		r.Infra("subscribe: %v", err)
		return
	}
	defer sub.Close()
	s.connectAll()
	nmsgs := 1 + r.Choose(4)
	r.Logf("emission: messages=%d window=%d eagerdag=%v", nmsgs, window, s.w.EagerDag)
	sdev, _ := S.gcs[gid].DevicePubKey().Raw()
	rdev, _ := R.gcs[gid].DevicePubKey().Raw()
	bmd, _ := B.ss.GetOwnMemberDeviceForGroup(g)
	_, otherPub, _ := crypto.GenerateEd25519Key(nil)
	otherRaw, _ := otherPub.Raw()

	type genuine struct {
		payload []byte
		dev     []byte
		env     []byte
	}
	authentic := map[string]*genuine{} // by CID of the log entry
	forged := map[string]string{}      // CID -> what it is
	var order []string
	reseal := func(h *protocoltypes.MessageHeaders, message []byte) []byte {
		hb, _ := proto.Marshal(h)
		nonce, _ := cryptoutil.GenerateNonce()
		box := secretbox.Seal(nil, hb, nonce, g.GetSharedSecret())
		out, _ := proto.Marshal(&protocoltypes.MessageEnvelope{MessageHeaders: box, Message: message, Nonce: nonce[:]})
		return out
	}
	appendRaw := func(what string, env []byte) bool {
		e, err := B.gcs[gid].MessageStore().AddOperation(ctx, operation.NewOperation(nil, "ADD", env), nil)
		if err != nil {
			r.Infra("B cannot append: %v", err)
			return false
		}
		s.wait()
		forged[e.GetHash().String()] = what
		r.Fault("forged_entry_" + what)
		r.Logf("B appends %s", what)
		return true
	}
	payloadOf := func(plain string) []byte {
		b, _ := proto.Marshal(&protocoltypes.EncryptedMessage{Plaintext: []byte(plain), ProtocolMetadata: &protocoltypes.ProtocolMetadata{}})
		return b
	}
	// B crafts entries from the genuine message with CID c (it must hold it)
	craft := func(c string) bool {
		ge := authentic[c]
		env, hdr, err := B.ss.OpenEnvelopeHeaders(ge.env, g)
		if err != nil {
			r.Infra("B cannot open headers: %v", err)
			return false
		}
		switch k := s.r.Choose(6); k {
		case 0: // single-bit flips of the envelope bytes
			for n := 1 + s.r.Choose(3); n > 0; n-- {
				f := append([]byte(nil), ge.env...)
				f[s.r.Choose(len(f))] ^= 1 << s.r.Choose(8)
				if !appendRaw("bit-flip", f) {
					return false
				}
			}
		case 1: // headers of this message with the ciphertext of another genuine message
			if len(order) > 1 {
				o := authentic[order[s.r.Choose(len(order))]]
				if oenv, _, err := B.ss.OpenEnvelopeHeaders(o.env, g); err == nil && !bytes.Equal(oenv.Message, env.Message) {
					if !appendRaw("ciphertext-swap", reseal(hdr, oenv.Message)) {
						return false
					}
				}
			}
		case 2: // re-attribution
			for _, v := range []*protocoltypes.MessageHeaders{
				{Counter: hdr.Counter, DevicePk: rdev, Sig: hdr.Sig}, {Counter: hdr.Counter, DevicePk: otherRaw, Sig: hdr.Sig},
				{Counter: hdr.Counter + 1, DevicePk: hdr.DevicePk, Sig: hdr.Sig}, {Counter: hdr.Counter - 1, DevicePk: hdr.DevicePk, Sig: hdr.Sig},
			} {
				if !appendRaw("re-attribution", reseal(v, env.Message)) {
					return false
				}
			}
		case 3, 4: // another payload under the sender's genuine message key, without the sender's signing key
			spk, _ := crypto.UnmarshalEd25519PublicKey(ge.dev)
			ecid, _ := cid.Decode(c)
			mk, err := secretstore.VerifMessageKey(ctx, B.ss, gpk, spk, hdr.Counter, ecid)
			if err != nil {
				r.Probe("message_key_outside_b_window")
				return true
			}
			evil := payloadOf(fmt.Sprintf("forged-by-B-%d", len(forged)))
			box := secretbox.Seal(nil, evil, secretstore.VerifCounterNonce(hdr.Counter), mk)
			bsig, _ := bmd.DeviceSign(evil)
			sigs := [][]byte{bsig, hdr.Sig, kernel.DetBytes(uint64(len(forged))+5, 64), nil}
			what := "member-forgery"
			if bytes.Equal(ge.dev, rdev) {
				what = "forgery-as-receiving-device"
			}
			if !appendRaw(what, reseal(&protocoltypes.MessageHeaders{Counter: hdr.Counter, DevicePk: hdr.DevicePk, Sig: sigs[s.r.Choose(len(sigs))]}, box)) {
				return false
			}
		case 5: // a payload under the RECEIVER's own message key for its next counters, attributed to the receiver
			rpk, _ := crypto.UnmarshalEd25519PublicKey(rdev)
			for c := uint64(1); c <= 2; c++ {
				mk, err := secretstore.VerifMessageKey(ctx, B.ss, gpk, rpk, c, cid.Undef)
				if err != nil {
					continue
				}
				evil := payloadOf("forged-as-R-by-B")
				box := secretbox.Seal(nil, evil, secretstore.VerifCounterNonce(c), mk)
				bsig, _ := bmd.DeviceSign(evil)
				if !appendRaw("forgery-as-receiving-device", reseal(&protocoltypes.MessageHeaders{Counter: c, DevicePk: rdev, Sig: bsig}, box)) {
					return false
				}
			}
		}
		return true
	}
	sent := 0
	for st := 0; st < nmsgs*4 && !r.Failed(); st++ {
		for k := s.r.Choose(8); k > 0; k-- {
			if !s.netStep(false) {
				break
			}
		}
		switch c := s.r.Choose(3); {
		case c == 0 && sent < nmsgs:
			// the receiver writes too: a fellow member can then forge under the RECEIVER's own message keys
			from, dev := S, sdev
			if s.r.Choose(3) == 0 {
				from, dev = R, rdev
				r.Probe("receiver_also_sends")
			}
			payload := fmt.Sprintf("genuine-%d", sent)
			op, err := from.gcs[gid].MessageStore().AddMessage(ctx, []byte(payload))
			if err != nil {
				r.Infra("AddMessage: %v", err)
				return
			}
			s.wait()
			c := op.GetEntry().GetHash().String()
			authentic[c] = &genuine{payload: []byte(payload), dev: dev, env: op.GetValue()}
			order = append(order, c)
			sent++
			r.Logf("%s sends %s", from.name, payload)
		default:
			// B forges from a genuine message its replica already holds
			held := map[string]bool{}
			for _, c := range logCIDs(B.gcs[gid], false) {
				held[c] = true
			}
			var cands []string
			for _, c := range order {
				if held[c] {
					cands = append(cands, c)
				}
			}
			if len(cands) > 0 {
				if !craft(cands[s.r.Choose(len(cands))]) {
					return
				}
			}
		}
	}
	if r.Failed() {
		return
	}
	if !s.settle([]*protocoltypes.Group{g}) {
		r.Infra("no fixpoint")
		return
	}
	r.SimTime(time.Second)
	s.wait()
	if got, want := R.gcs[gid].MessageStore().OpLog().Len(), len(authentic)+len(forged); got != want {
		r.Violate("count", "missing-envelopes", "at the fixpoint the receiver holds %d of the %d message entries", got, want)
		return
	}
	delivered := map[string]int{}
	for {
		select {
		case e := <-sub.Out():
			ev := e.(*protocoltypes.GroupMessageEvent)
			c, _ := cid.Cast(ev.EventContext.Id)
			cs := c.String()
			delivered[cs]++
			if what, isForged := forged[cs]; isForged {
				r.Violate("authenticity", "delivered-with-wrong-content-or-attribution/"+what, "the receiver's application was handed an entry crafted by a fellow member (%s): payload %q attributed to device %x", what, ev.Message, ev.Headers.GetDevicePk()[:4])
				return
			}
			ge, ok := authentic[cs]
			if !ok {
				r.Violate("authenticity", "wrong-tuple", "the receiver's application was handed an entry nobody appended")
				return
			}
			if !bytes.Equal(ev.Message, ge.payload) || !bytes.Equal(ev.Headers.GetDevicePk(), ge.dev) {
				r.Violate("authenticity", "delivered-with-wrong-content-or-attribution/genuine-entry", "genuine entry delivered as payload %q from device %x, sealed as %q by %x", ev.Message, ev.Headers.GetDevicePk()[:4], ge.payload, ge.dev[:4])
				return
			}
			continue
		default:
		}
		break
	}
	for _, c := range order {
		if delivered[c] != 1 {
			r.Violate("completeness", "authentic-envelope-rejected", "genuine message %q was delivered %d times to the receiver's application although it holds the sender's chain key and the entry (%d crafted entries are in the log; a rejected forgery must not displace the genuine message)", authentic[c].payload, delivered[c], len(forged))
			return
		}
	}
	if len(forged) > 0 {
		r.Probe("forged_entries_not_delivered")
	}
	r.Probe("genuine_messages_delivered")
	if s.delivered > 0 {
		r.Nontrivial()
	}
}
