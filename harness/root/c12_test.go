//go:build verif

package weshnet

import (
	"bytes"
	"context"
	"fmt"
	"testing"

	"github.com/ipfs/go-cid"
	"github.com/libp2p/go-libp2p/core/crypto"
	"github.com/libp2p/go-libp2p/core/peer"
	"github.com/prometheus/client_golang/prometheus"
	"go.uber.org/zap"
	"google.golang.org/protobuf/proto"

	orbitdb "berty.tech/go-orbit-db"
	"berty.tech/go-orbit-db/stores/operation"
	"berty.tech/weshnet/v2/internal/verifsim/disk"
	"berty.tech/weshnet/v2/internal/verifsim/kernel"
	"berty.tech/weshnet/v2/internal/verifsim/sched"
	"berty.tech/weshnet/v2/pkg/protocoltypes"
	"berty.tech/weshnet/v2/pkg/secretstore"
)

// C12: invitations are self-authenticating; replication descriptors cannot read.
// (a) the invitation as bytes in flight from inviter to joiner: every single-bit flip, field removal
//     and group-type substitution, offered to the real GroupJoin of the joiner's account group.
// (b) a replication node (real WeshOrbitDB in replication mode holding only the descriptor) takes
//     part in the simulated network of a group session: it must hold every entry at the fixpoint,
//     use the same log addresses, and be unable to open any metadata or message envelope.

func TestVerifC12(t *testing.T) {
	kernel.InstallCrypto(t)
	kernel.Component("MetadataStore.GroupJoin, Group.IsValid, FilterGroupForReplication, WeshOrbitDB replication mode", "real")
	kernel.Component("go-orbit-db base store + replicator, go-ipfs-log, secret store", "real")
	kernel.Component("pubsub, direct channel, DAG block exchange, clock", "simulated (SimNet/SimDag/synctest)")
	kernel.Check(t, "C12", func(r *kernel.Run) {
		seed := r.Uint64("cryptoseed")
		r.Words(1200)
		part := r.Pick("part", 2)
		res := sched.Bubble(t, func() {
			if part == 0 {
				c12invitation(r, seed)
			} else {
				c12replication(r, seed)
			}
		})
		if res != "" && !r.Failed() {
			r.Infra("bubble panicked: %s", res)
		}
	})
}

func c12invitation(r *kernel.Run, seed uint64) {
	ctx := context.Background()
	kernel.SeedCrypto(seed)
	s := newVSim(r)
	defer s.shutdown()
	n, err := s.addNode("joiner", 4)
	if err != nil {
		r.Infra("node: %v", err)
		return
	}
	ag, amd, err := n.ss.GetGroupForAccount()
	if err != nil {
		r.Infra("account: %v", err)
		return
	}
	if _, err := n.openGroup(ag); err != nil {
		r.Infra("open: %v", err)
		return
	}
	m := n.gcs[ag.GroupIDAsString()].MetadataStore()
	inv, _, err := protocoltypes.NewGroupMultiMember()
	if err != nil {
		r.Infra("group: %v", err)
		return
	}
	raw, _ := proto.Marshal(inv)
	r.Logf("invitation of %d bytes", len(raw))
	critical := func(g *protocoltypes.Group) bool {
		return !bytes.Equal(g.PublicKey, inv.PublicKey) || !bytes.Equal(g.Secret, inv.Secret) || !bytes.Equal(g.SecretSig, inv.SecretSig) || g.GroupType != inv.GroupType
	}
	try := func(what string, g *protocoltypes.Group) bool {
		before := m.OpLog().Len()
		_, err := m.GroupJoin(ctx, g)
		s.wait()
		after := m.OpLog().Len()
		r.Step()
		if err == nil || after != before {
			r.Violate("invitation", "altered-invitation-accepted/"+what, "an invitation altered in its identifier, secret, signature or type (%s) was accepted by GroupJoin (err=%v, %d entries appended)", what, err, after-before)
			return false
		}
		return true
	}
	// every single-bit flip of the invitation in flight
	for bit := 0; bit < len(raw)*8; bit++ {
		b2 := append([]byte(nil), raw...)
		b2[bit/8] ^= 1 << (bit % 8)
		g := &protocoltypes.Group{}
		if proto.Unmarshal(b2, g) != nil {
			r.Probe("flip_unparseable")
			continue
		}
		if !critical(g) {
			r.Probe("flip_outside_authenticated_fields")
			continue
		}
		r.Fault("bit_flip")
		if !try("bit-flip", g) {
			return
		}
	}
	// field removal and type substitution
	for _, v := range []struct {
		name string
		f    func(g *protocoltypes.Group)
	}{
		{"no-public-key", func(g *protocoltypes.Group) { g.PublicKey = nil }},
		{"no-secret", func(g *protocoltypes.Group) { g.Secret = nil }},
		{"no-signature", func(g *protocoltypes.Group) { g.SecretSig = nil }},
		{"type-account", func(g *protocoltypes.Group) { g.GroupType = protocoltypes.GroupType_GroupTypeAccount }},
		{"type-contact", func(g *protocoltypes.Group) { g.GroupType = protocoltypes.GroupType_GroupTypeContact }},
		{"type-undefined", func(g *protocoltypes.Group) { g.GroupType = protocoltypes.GroupType_GroupTypeUndefined }},
		{"type-unknown-number", func(g *protocoltypes.Group) { g.GroupType = protocoltypes.GroupType(77) }},
		{"secret-of-another-group", func(g *protocoltypes.Group) {
			o, _, _ := protocoltypes.NewGroupMultiMember()
			g.Secret = o.Secret
		}},
		{"signature-of-another-group", func(g *protocoltypes.Group) {
			o, _, _ := protocoltypes.NewGroupMultiMember()
			g.SecretSig = o.SecretSig
		}},
		{"own-account-group-as-invitation", func(g *protocoltypes.Group) { *g = *proto.Clone(ag).(*protocoltypes.Group) }},
	} {
		g := proto.Clone(inv).(*protocoltypes.Group)
		v.f(g)
		r.Fault("field_" + v.name)
		if !try(v.name, g) {
			return
		}
	}
	// the genuine invitation joins, once
	before := m.OpLog().Len()
	if _, err := m.GroupJoin(ctx, inv); err != nil || m.OpLog().Len() != before+1 {
		r.Violate("invitation", "genuine-invitation-refused", "the unaltered invitation was refused: %v", err)
		return
	}
	s.wait()
	found := false
	for _, g := range m.ListMultiMemberGroups() {
		if bytes.Equal(g.PublicKey, inv.PublicKey) {
			found = true
		}
	}
	if !found {
		r.Violate("invitation", "joined-group-not-listed", "the joined group is not listed")
		return
	}
	// in the joined group the account acts under derived member and device keys, never its account identity
	gc, err := n.openGroup(inv)
	if err != nil {
		r.Infra("open joined group: %v", err)
		return
	}
	accPub, _ := amd.Member().Raw()
	accDev, _ := amd.Device().Raw()
	mem, _ := gc.MemberPubKey().Raw()
	dev, _ := gc.DevicePubKey().Raw()
	proofPK, _ := n.ss.GetAccountProofPublicKey()
	proof, _ := proofPK.Raw()
	for _, k := range [][]byte{mem, dev} {
		if bytes.Equal(k, accPub) || bytes.Equal(k, accDev) || bytes.Equal(k, proof) {
			r.Violate("identity", "account-identity-used-in-joined-group", "in the joined group the account acts under one of its account keys")
			return
		}
	}
	r.Probe("genuine_invitation_joined")
	r.Nontrivial()
}

func c12replication(r *kernel.Run, seed uint64) {
	ctx := context.Background()
	kernel.SeedCrypto(seed)
	s := newVSim(r)
	defer s.shutdown()
	s.w.EagerDag = r.Choose(2) == 0
	// groups of all types: multi-member (as created, or an invitation without the link-key signature), contact, account
	gkind := r.Choose(4)
	nmembers := 2 + r.Choose(2)
	if gkind >= 2 {
		nmembers = 2
	}
	for i := 0; i < nmembers; i++ {
		n, err := s.addNode(fmt.Sprintf("m%d", i), 8)
		if err != nil {
			r.Infra("node: %v", err)
			return
		}
		if gkind == 3 && i == 1 {
			if err := n.importAccountFrom(s.nodes[0]); err != nil {
				r.Infra("import: %v", err)
				return
			}
		}
	}
	var g *protocoltypes.Group
	var err error
	switch gkind {
	case 0:
		g, _, err = protocoltypes.NewGroupMultiMember()
	case 1:
		g, _, err = protocoltypes.NewGroupMultiMember()
		if err == nil {
			g.LinkKeySig = nil
		}
	case 2:
		var pk crypto.PubKey
		if ag, _, e := s.nodes[1].ss.GetGroupForAccount(); e == nil {
			pk, _ = ag.GetPubKey()
		}
		g, err = s.nodes[0].ss.GetGroupForContact(pk)
	default:
		g, _, err = s.nodes[0].ss.GetGroupForAccount()
	}
	if err != nil {
		r.Infra("group: %v", err)
		return
	}
	for _, n := range s.nodes {
		if _, err := n.openGroup(g); err != nil {
			r.Infra("open: %v", err)
			return
		}
	}
	gid := g.GroupIDAsString()
	desc, err := FilterGroupForReplication(g)
	if err != nil {
		r.Infra("descriptor: %v", err)
		return
	}
	if len(desc.Secret) != 0 || len(desc.SecretSig) != 0 {
		r.Violate("descriptor", "descriptor-carries-secret", "the replication descriptor contains the group secret")
		return
	}
	if bytes.Contains(mustMarshal(desc), g.Secret) {
		r.Violate("descriptor", "descriptor-carries-secret", "the serialized replication descriptor contains the bytes of the group secret")
		return
	}
	// the replication node: a simulated network participant running the real orbitdb in replication mode
	rn := &vnode{name: "repl", ssDisk: disk.New(), dbDisk: disk.New(), gcs: map[string]*GroupContext{}}
	_, rpub, _ := crypto.GenerateEd25519Key(nil)
	pid, _ := peer.IDFromPublicKey(rpub)
	rn.nn = s.w.AddNode("repl", pid)
	rn.ctx, rn.cancel = context.WithCancel(context.Background())
	rss, _ := secretstore.NewSecretStore(rn.ssDisk, nil)
	rn.ss = rss
	rodb, err := NewWeshOrbitDB(rn.ctx, rn.nn, &NewOrbitDBOptions{
		NewOrbitDBOptions: orbitdb.NewOrbitDBOptions{Logger: zap.NewNop(), PubSub: rn.nn.PubSubIface(), DirectChannelFactory: rn.nn.DirectChannelFactory()},
		Datastore:         rn.dbDisk, SecretStore: rss, PrometheusRegister: prometheus.NewRegistry(), ReplicationMode: true,
	})
	if err != nil {
		r.Infra("replication orbitdb: %v", err)
		return
	}
	rn.odb = rodb
	s.nodes = append(s.nodes, rn)
	metaR, msgR, err := rodb.OpenGroupReplication(rn.ctx, desc, nil)
	if err != nil {
		r.Violate("descriptor", "descriptor-unusable", "a replication node cannot open the group from its descriptor: %v", err)
		return
	}
	defer func() { _ = metaR.Close(); _ = msgR.Close() }()
	ref := s.nodes[0].gcs[gid]
	if metaR.Address().String() != ref.MetadataStore().Address().String() || msgR.Address().String() != ref.MessageStore().Address().String() {
		r.Violate("descriptor", "different-log-addresses", "the descriptor designates other log addresses than the full group")
		return
	}
	s.connectAll()
	r.Logf("replication: group kind=%d members=%d eagerdag=%v", gkind, nmembers, s.w.EagerDag)
	r.Probe(fmt.Sprintf("replication_group_kind_%d", gkind))
	// a random group session: members announce chain keys and write metadata and messages
	var metaEnvs, msgEnvs [][]byte
	nops := 2 + s.r.Choose(10)
	for i := 0; i < nops; i++ {
		n := s.nodes[s.r.Choose(nmembers)]
		gc := n.gcs[gid]
		var op operation.Operation
		var err error
		if s.r.Choose(2) == 0 {
			op, err = gc.MetadataStore().SendAppMetadata(ctx, []byte(fmt.Sprintf("meta-%d", i)))
			if err == nil {
				metaEnvs = append(metaEnvs, op.GetValue())
			}
		} else {
			op, err = gc.MessageStore().AddMessage(ctx, []byte(fmt.Sprintf("msg-%d", i)))
			if err == nil {
				msgEnvs = append(msgEnvs, op.GetValue())
			}
		}
		s.wait() // the store's own reaction to the write runs before the next simulator action
		if err != nil {
			r.Infra("session op: %v", err)
			return
		}
		for k := s.r.Choose(6); k > 0; k-- {
			if !s.netStep(false) {
				break
			}
		}
	}
	// anti-entropy to the fixpoint (the replication node has no group context: drive it by hand)
	prev := -1
	for round := 0; round < 40; round++ {
		s.drain(false, 5000)
		cur := metaR.OpLog().Len()*1000 + msgR.OpLog().Len()
		for _, n := range s.nodes[:nmembers] {
			cur += n.gcs[gid].MetadataStore().OpLog().Len()*7 + n.gcs[gid].MessageStore().OpLog().Len()*13
		}
		if cur == prev {
			break
		}
		prev = cur
		for i := range s.nodes {
			for j := i + 1; j < len(s.nodes); j++ {
				s.w.Rejoin(i, j)
			}
		}
	}
	if s.delivered > 0 {
		r.Nontrivial()
	}
	if metaR.OpLog().Len() != len(metaEnvs) || msgR.OpLog().Len() != len(msgEnvs) {
		r.Violate("replication", "replication-node-incomplete", "at the fixpoint the replication node holds %d/%d metadata and %d/%d message entries", metaR.OpLog().Len(), len(metaEnvs), msgR.OpLog().Len(), len(msgEnvs))
		return
	}
	r.Probe("replication_node_converged")
	// with the descriptor nothing can be opened
	for i, env := range metaEnvs {
		if _, _, err := openGroupEnvelope(desc, env); err == nil {
			r.Violate("descriptor", "descriptor-opens-metadata", "metadata envelope %d opens with the replication descriptor", i)
			return
		}
		if _, _, err := openGroupEnvelope(g, env); err != nil {
			r.Infra("a member cannot open its own metadata envelope: %v", err)
			return
		}
		r.Step()
	}
	for i, env := range msgEnvs {
		if _, _, err := rss.OpenEnvelopeHeaders(env, desc); err == nil {
			r.Violate("descriptor", "descriptor-opens-message-headers", "message envelope %d: headers open with the replication descriptor", i)
			return
		}
		if e, h, err := s.nodes[0].ss.OpenEnvelopeHeaders(env, g); err == nil {
			// a fortiori the payload: no chain key can be registered without the member key of the group
			gpk, _ := desc.GetPubKey()
			if _, err := rss.OpenEnvelopePayload(ctx, e, h, gpk, nil, cid.Undef); err == nil {
				r.Violate("descriptor", "descriptor-opens-message-payload", "message envelope %d: payload opens on the replication node", i)
				return
			}
		}
		r.Step()
	}
	r.Probe("descriptor_cannot_read")
}

func mustMarshal(m proto.Message) []byte {
	b, _ := proto.Marshal(m)
	return b
}
