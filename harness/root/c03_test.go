//go:build verif

package weshnet

import (
	"context"
	"fmt"
	"sort"
	"testing"

	"github.com/ipfs/go-cid"
	"github.com/libp2p/go-libp2p/core/crypto"
	"github.com/libp2p/go-libp2p/p2p/host/eventbus"
	"golang.org/x/crypto/nacl/secretbox"
	"google.golang.org/protobuf/encoding/protowire"
	"google.golang.org/protobuf/proto"
	"google.golang.org/protobuf/reflect/protoreflect"

	"berty.tech/go-orbit-db/stores/operation"
	"berty.tech/weshnet/v2/internal/verifsim/kernel"
	"berty.tech/weshnet/v2/internal/verifsim/sched"
	"berty.tech/weshnet/v2/pkg/cryptoutil"
	"berty.tech/weshnet/v2/pkg/protocoltypes"
)

// C03: only correctly signed metadata events reach group state and subscribers.
// A Byzantine group member B (a legitimate holder of the group secret and of its own device key)
// crafts envelopes for EVERY event type of the protocol x a forgery catalogue, appends them to the
// real metadata log, and the simulator replicates them to an honest replica R interleaved with
// honest control events. Oracles: every forged envelope is refused by openGroupEnvelope; R's state
// digest does not move when only forged entries arrive; no EventMetadataReceived is emitted for a
// forged entry; correctly signed control events of every type ARE accepted and emitted.

var c03forgeries = []string{"other-device-sig", "group-key-sig", "member-key-sig", "signer-swapped", "payload-bitflip", "sig-bitflip", "missing-sig", "unknown-type", "wrong-secret", "duplicated-signer-field"}

type c03signer struct {
	devPub    []byte
	devSign   func([]byte) ([]byte, error)
	memPub    []byte
	memSign   func([]byte) ([]byte, error)
	groupSign func([]byte) ([]byte, error) // nil if B does not hold the group private key
}

// c03craft builds a payload of the given type naming dev as its device, with plausible content.
func c03craft(t protocoltypes.EventType, dev []byte, subject []byte, grp *protocoltypes.Group) proto.Message {
	msg := proto.Clone(eventTypesMapper[t].Message)
	m := msg.ProtoReflect()
	fields := m.Descriptor().Fields()
	for i := 0; i < fields.Len(); i++ {
		fd := fields.Get(i)
		switch {
		case fd.Kind() == protoreflect.BytesKind && string(fd.Name()) == "device_pk":
			m.Set(fd, protoreflect.ValueOfBytes(dev))
		case fd.Kind() == protoreflect.BytesKind:
			m.Set(fd, protoreflect.ValueOfBytes(subject))
		case fd.Kind() == protoreflect.StringKind:
			m.Set(fd, protoreflect.ValueOfString("forged-"+string(fd.Name())))
		case fd.Kind() == protoreflect.MessageKind && string(fd.Message().Name()) == "Group":
			m.Set(fd, protoreflect.ValueOfMessage(grp.ProtoReflect()))
		case fd.Kind() == protoreflect.MessageKind && string(fd.Message().Name()) == "ShareableContact":
			sc := &protocoltypes.ShareableContact{Pk: subject, PublicRendezvousSeed: kernel.DetBytes(99, 32), Metadata: []byte("forged")}
			m.Set(fd, protoreflect.ValueOfMessage(sc.ProtoReflect()))
		}
	}
	return msg
}

func c03seal(secret *[32]byte, t protocoltypes.EventType, payload, sig []byte) []byte {
	nonce, _ := cryptoutil.GenerateNonce()
	ev := &protocoltypes.GroupMetadata{EventType: t, Payload: payload, Sig: sig, ProtocolMetadata: &protocoltypes.ProtocolMetadata{}}
	clear, _ := proto.Marshal(ev)
	box := secretbox.Seal(nil, clear, nonce, secret)
	env, _ := proto.Marshal(&protocoltypes.GroupEnvelope{Event: box, Nonce: nonce[:]})
	return env
}

// c03envelope returns a sealed envelope of type t: valid when forgery == "", forged otherwise.
// ok=false when the forgery does not apply to the type (e.g. the forged signer IS the required one).
func c03envelope(g *protocoltypes.Group, t protocoltypes.EventType, forgery string, sg *c03signer, subject []byte, grp *protocoltypes.Group, bit int) ([]byte, bool) {
	groupSigned := t == protocoltypes.EventType_EventTypeMultiMemberGroupInitialMemberAnnounced
	memberDevice := t == protocoltypes.EventType_EventTypeGroupMemberDeviceAdded
	var payloadMsg proto.Message
	if groupSigned {
		payloadMsg = &protocoltypes.MultiMemberGroupInitialMemberAnnounced{MemberPk: sg.memPub}
	} else if memberDevice {
		ms, _ := sg.memSign(sg.devPub)
		payloadMsg = &protocoltypes.GroupMemberDeviceAdded{MemberPk: sg.memPub, DevicePk: sg.devPub, MemberSig: ms}
	} else {
		payloadMsg = c03craft(t, sg.devPub, subject, grp)
	}
	payload, _ := proto.Marshal(payloadMsg)
	required := sg.devSign
	if groupSigned {
		required = sg.groupSign
		if required == nil {
			return nil, false
		}
	}
	_, other, _ := crypto.GenerateEd25519Key(nil)
	_ = other
	otherPriv, otherPub, _ := crypto.GenerateEd25519Key(nil)
	otherRaw, _ := otherPub.Raw()
	secret := g.GetSharedSecret()
	switch forgery {
	case "":
		sig, _ := required(payload)
		return c03seal(secret, t, payload, sig), true
	case "other-device-sig":
		sig, _ := otherPriv.Sign(payload)
		return c03seal(secret, t, payload, sig), true
	case "group-key-sig":
		if groupSigned || sg.groupSign == nil {
			if !groupSigned {
				return nil, false
			}
			// for the group-signed type the forgery is a device signature instead
			sig, _ := sg.devSign(payload)
			return c03seal(secret, t, payload, sig), true
		}
		sig, _ := sg.groupSign(payload)
		return c03seal(secret, t, payload, sig), true
	case "member-key-sig":
		if string(sg.memPub) == string(sg.devPub) || (groupSigned && string(sg.memPub) == string(g.PublicKey)) {
			return nil, false // in the account group the member key IS the group key: that signature is the required one
		}
		sig, _ := sg.memSign(payload)
		return c03seal(secret, t, payload, sig), true
	case "signer-swapped":
		if groupSigned {
			return nil, false
		}
		sig, _ := required(payload)
		var swapped proto.Message
		if memberDevice {
			ms, _ := sg.memSign(sg.devPub)
			swapped = &protocoltypes.GroupMemberDeviceAdded{MemberPk: sg.memPub, DevicePk: otherRaw, MemberSig: ms}
		} else {
			swapped = c03craft(t, otherRaw, subject, grp)
		}
		p2, _ := proto.Marshal(swapped)
		return c03seal(secret, t, p2, sig), true
	case "duplicated-signer-field":
		// the serialized payload carries the signer field twice: another device's key first, the victim's last (a
		// protobuf decoder keeps the last), signed by the other device
		if groupSigned {
			return nil, false
		}
		fd := payloadMsg.ProtoReflect().Descriptor().Fields().ByName("device_pk")
		if fd == nil || fd.Kind() != protoreflect.BytesKind {
			return nil, false
		}
		p2 := protowire.AppendTag(nil, fd.Number(), protowire.BytesType)
		p2 = protowire.AppendBytes(p2, otherRaw)
		p2 = append(p2, payload...)
		sig, _ := otherPriv.Sign(p2)
		return c03seal(secret, t, p2, sig), true
	case "payload-bitflip":
		sig, _ := required(payload)
		if len(payload) == 0 {
			return nil, false
		}
		p2 := append([]byte(nil), payload...)
		p2[(bit/8)%len(p2)] ^= 1 << (bit % 8)
		return c03seal(secret, t, p2, sig), true
	case "sig-bitflip":
		sig, _ := required(payload)
		s2 := append([]byte(nil), sig...)
		s2[(bit/8)%len(s2)] ^= 1 << (bit % 8)
		return c03seal(secret, t, payload, s2), true
	case "missing-sig":
		return c03seal(secret, t, payload, nil), true
	case "unknown-type":
		sig, _ := required(payload)
		return c03seal(secret, protocoltypes.EventType(9000+int32(t)), payload, sig), true
	case "wrong-secret":
		sig, _ := required(payload)
		var other [32]byte
		copy(other[:], kernel.DetBytes(4242, 32))
		return c03seal(&other, t, payload, sig), true
	case "member-sig-invalid":
		if !memberDevice {
			return nil, false
		}
		ms, _ := otherPriv.Sign(sg.devPub)
		p2, _ := proto.Marshal(&protocoltypes.GroupMemberDeviceAdded{MemberPk: sg.memPub, DevicePk: sg.devPub, MemberSig: ms})
		sig, _ := sg.devSign(p2)
		return c03seal(secret, t, p2, sig), true
	case "device-sig-invalid":
		if !memberDevice {
			return nil, false
		}
		sig, _ := otherPriv.Sign(payload)
		return c03seal(secret, t, payload, sig), true
	}
	return nil, false
}

func c03types() []protocoltypes.EventType {
	var ts []protocoltypes.EventType
	for t := range eventTypesMapper {
		ts = append(ts, t)
	}
	sort.Slice(ts, func(i, j int) bool { return ts[i] < ts[j] })
	return ts
}

func TestVerifC03(t *testing.T) {
	kernel.InstallCrypto(t)
	kernel.Component("openGroupEnvelope + signature checkers, MetadataStore, metadata index, event emitters", "real")
	kernel.Component("go-orbit-db base store + replicator, go-ipfs-log, secret store", "real")
	kernel.Component("Byzantine member", "simulated (crafted envelopes appended to its real log)")
	kernel.Component("pubsub, direct channel, DAG block exchange, clock", "simulated (SimNet/SimDag/synctest)")
	kernel.Check(t, "C03", func(r *kernel.Run) {
		seed := r.Uint64("cryptoseed")
		r.Words(1500)
		res := sched.Bubble(t, func() { c03run(r, seed) })
		if res != "" && !r.Failed() {
			r.Infra("bubble panicked: %s", res)
		}
	})
}

func c03run(r *kernel.Run, seed uint64) {
	ctx := context.Background()
	kernel.SeedCrypto(seed)
	s := newVSim(r)
	defer s.shutdown()
	s.w.EagerDag = r.Choose(2) == 0
	multi := r.Choose(2) == 1
	for i, name := range []string{"H", "R", "B"} {
		n, err := s.addNode(name, 4)
		if err != nil {
			r.Infra("node: %v", err)
			return
		}
		if !multi && i > 0 {
			if err := n.importAccountFrom(s.nodes[0]); err != nil {
				r.Infra("import: %v", err)
				return
			}
		}
	}
	H, R, B := s.nodes[0], s.nodes[1], s.nodes[2]
	var g *protocoltypes.Group
	var groupSK crypto.PrivKey
	var err error
	if multi {
		g, groupSK, err = protocoltypes.NewGroupMultiMember()
	} else {
		g, _, err = H.ss.GetGroupForAccount()
		groupSK, _ = H.ss.GetAccountPrivateKey() // the account key is the group key of the account group; every device holds it
	}
	if err != nil {
		r.Infra("group: %v", err)
		return
	}
	for _, n := range s.nodes {
		if _, err := n.openGroup(g); err != nil {
			r.Infra("open: %v", err)
			return
		}
	}
	s.connectAll()
	gid := g.GroupIDAsString()
	bmd, _ := B.ss.GetOwnMemberDeviceForGroup(g)
	bdev, _ := bmd.Device().Raw()
	bmem, _ := bmd.Member().Raw()
	sg := &c03signer{devPub: bdev, devSign: bmd.DeviceSign, memPub: bmem, memSign: bmd.MemberSign}
	byzantineCreator := r.Choose(2) == 1
	if !multi || byzantineCreator {
		sg.groupSign = groupSK.Sign // B holds the group private key (account device, or creator of the group)
	}
	r.Logf("signed events: group=%s byzantine_holds_group_key=%v eagerdag=%v", map[bool]string{true: "multi-member", false: "account"}[multi], sg.groupSign != nil, s.w.EagerDag)

	_, subjPub, _ := crypto.GenerateEd25519Key(nil)
	subject, _ := subjPub.Raw()
	otherGroup, _, _ := protocoltypes.NewGroupMultiMember()
	types := c03types()
	allForgeries := append(append([]string{}, c03forgeries...), "member-sig-invalid", "device-sig-invalid")

	// (1) envelope level, every type x every forgery: openGroupEnvelope must refuse; valid must be accepted
	for _, t := range types {
		if env, ok := c03envelope(g, t, "", sg, subject, otherGroup, 0); ok {
			if _, _, err := openGroupEnvelope(g, env); err != nil {
				r.Violate("accept", "valid-event-refused", "a correctly signed %s event is refused: %v", t, err)
				return
			}
			r.Probe("valid_envelope_accepted")
		}
		for _, f := range allForgeries {
			env, ok := c03envelope(g, t, f, sg, subject, otherGroup, s.r.Choose(4096))
			if !ok {
				continue
			}
			r.Step()
			if _, _, err := openGroupEnvelope(g, env); err == nil {
				r.Violate("reject", "forged-event-accepted/"+f, "a %s event forged by %q is accepted by openGroupEnvelope", t, f)
				return
			}
			r.Fault("forgery_" + f)
		}
	}

	// (2) replication level: forged and valid entries appended by B reach R through the network
	sub, err := R.gcs[gid].MetadataStore().EventBus().Subscribe(new(EventMetadataReceived), eventbus.BufSize(8192))
	if err != nil {
		r.Infra("subscribe: %v", err)
		return
	}
	defer sub.Close()
	emitted := map[string]int{}
	drainEvents := func() {
		for {
			select {
			case e := <-sub.Out():
				ev := e.(EventMetadataReceived)
				if c, err := cid.Cast(ev.MetaEvent.EventContext.Id); err == nil {
					emitted[c.String()]++
				}
			default:
				return
			}
		}
	}
	appendRaw := func(n *vnode, env []byte) (string, bool) {
		e, err := n.gcs[gid].MetadataStore().AddOperation(ctx, operation.NewOperation(nil, "ADD", env), nil)
		if err != nil {
			return "", false
		}
		s.wait()
		return e.GetHash().String(), true
	}
	settleNet := func() {
		s.drain(false, 3000)
		if R.gcs[gid].MetadataStore().OpLog().Len() != B.gcs[gid].MetadataStore().OpLog().Len() {
			s.settle([]*protocoltypes.Group{g}) // a dropped or superseded announcement is repaired by head exchange
			r.Probe("repaired_by_head_exchange")
		}
		s.wait()
		drainEvents()
	}
	forged := map[string]string{}
	valid := map[string]string{}
	rounds := 1 + s.r.Choose(4)
	for round := 0; round < rounds && !r.Failed(); round++ {
		settleNet()
		// lagging forger: the Byzantine member is cut off while the honest members go on writing, forges with its
		// older logical clock, and reconnects: its entries then sort into the MIDDLE of the honest replica's log
		lagging := s.r.Choose(3) == 0
		if lagging {
			for _, o := range s.nodes {
				if o != B {
					s.w.Disconnect(B.nn.Index, o.nn.Index)
				}
			}
			for k := 2 + s.r.Choose(2); k > 0; k-- {
				if op, err := H.gcs[gid].MetadataStore().SendAppMetadata(ctx, []byte(fmt.Sprintf("ahead-%d-%d", round, k))); err == nil {
					s.wait()
					valid[op.GetEntry().GetHash().String()] = "H/GroupMetadataPayloadSent"
				}
			}
			s.drain(false, 3000)
			s.wait()
			drainEvents()
			r.Fault("forger_lagging_behind")
			r.Logf("B is partitioned and lags behind")
		}
		before := metaDigest(R.gcs[gid].MetadataStore())
		// a batch of forged entries only
		nf := 1 + s.r.Choose(5)
		for i := 0; i < nf; i++ {
			t := types[s.r.Choose(len(types))]
			f := allForgeries[s.r.Choose(len(allForgeries))]
			env, ok := c03envelope(g, t, f, sg, subject, otherGroup, s.r.Choose(4096))
			if !ok {
				continue
			}
			if c, ok := appendRaw(B, env); ok {
				forged[c] = fmt.Sprintf("%s/%s", t, f)
				r.Logf("B appends forged %s (%s)", t, f)
			}
			for k := s.r.Choose(4); k > 0; k-- {
				s.netStep(false)
			}
		}
		if lagging {
			for _, o := range s.nodes {
				if o != B {
					s.w.Connect(B.nn.Index, o.nn.Index)
				}
			}
		}
		settleNet()
		if R.gcs[gid].MetadataStore().OpLog().Len() != B.gcs[gid].MetadataStore().OpLog().Len() {
			r.Infra("forged entries did not replicate (R %d, B %d)", R.gcs[gid].MetadataStore().OpLog().Len(), B.gcs[gid].MetadataStore().OpLog().Len())
			return
		}
		r.Probe("forged_entries_replicated")
		if after := metaDigest(R.gcs[gid].MetadataStore()); after != before {
			r.Violate("state", "forged-event-changed-state", "the honest replica's state changed after receiving only forged entries %v:\n  before: %s\n  after:  %s", forged, before, after)
			return
		}
		// honest control events: a valid event by B of a drawn type and an ordinary operation by H
		t := types[s.r.Choose(len(types))]
		if env, ok := c03envelope(g, t, "", sg, subject, otherGroup, 0); ok {
			if c, ok := appendRaw(B, env); ok {
				valid[c] = t.String()
				r.Logf("B appends valid %s", t)
			}
		}
		if op, err := H.gcs[gid].MetadataStore().SendAppMetadata(ctx, []byte(fmt.Sprintf("control-%d", round))); err == nil {
			valid[op.GetEntry().GetHash().String()] = "H/GroupMetadataPayloadSent"
		}
		settleNet()
	}
	if r.Failed() {
		return
	}
	if !s.settle([]*protocoltypes.Group{g}) {
		r.Infra("no fixpoint")
		return
	}
	drainEvents()
	if s.delivered > 0 {
		r.Nontrivial()
	}
	var fcids []string
	for c := range forged {
		fcids = append(fcids, c)
	}
	sort.Strings(fcids)
	for _, c := range fcids {
		if emitted[c] > 0 {
			r.Violate("emit", "forged-event-emitted", "EventMetadataReceived was emitted for a forged entry (%s)", forged[c])
			return
		}
	}
	var vcids []string
	for c := range valid {
		vcids = append(vcids, c)
	}
	sort.Strings(vcids)
	for _, c := range vcids {
		if emitted[c] == 0 {
			r.Violate("emit", "valid-event-not-emitted", "no EventMetadataReceived for a correctly signed entry (%s)", valid[c])
			return
		}
	}
	r.Probe("valid_entries_emitted")
	// the listing API (GroupMetadataList, chain-key replay at activation) hands events out as well
	for _, n := range []*vnode{R, H} {
		ch, err := n.gcs[gid].MetadataStore().ListEvents(ctx, nil, nil, false)
		if err != nil {
			r.Violate("list", "listing-failed", "ListEvents failed: %v", err)
			return
		}
		listed := map[string]bool{}
		for _, c := range c13collectMeta(ch) {
			listed[c] = true
		}
		for _, c := range fcids {
			if listed[c] {
				r.Violate("list", "forged-event-listed", "ListEvents on %s hands out a forged entry (%s)", n.name, forged[c])
				return
			}
		}
		for _, c := range vcids {
			if !listed[c] {
				r.Violate("list", "valid-event-not-listed", "ListEvents on %s does not hand out a correctly signed entry (%s)", n.name, valid[c])
				return
			}
		}
	}
	r.Probe("listing_checked")
	// H and R hold the same entries and must agree (forged entries are ignored by both)
	if dh, dr := metaDigest(H.gcs[gid].MetadataStore()), metaDigest(R.gcs[gid].MetadataStore()); dh != dr && sameStrings(logCIDs(H.gcs[gid], true), logCIDs(R.gcs[gid], true)) {
		r.Violate("state", "same-entries-different-state", "H and R differ:\n  H: %s\n  R: %s", dh, dr)
	}
}
