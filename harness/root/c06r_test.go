//go:build verif

package weshnet

import (
	"bytes"
	"context"
	"encoding/binary"
	"fmt"
	"io"
	"sync"
	"testing"
	"testing/synctest"

	"github.com/libp2p/go-libp2p/core/crypto"
	"github.com/libp2p/go-libp2p/core/network"
	"github.com/libp2p/go-libp2p/core/protocol"
	"go.uber.org/zap"
	"google.golang.org/protobuf/proto"

	"berty.tech/weshnet/v2/internal/handshake"
	"berty.tech/weshnet/v2/internal/verifsim/kernel"
	"berty.tech/weshnet/v2/internal/verifsim/sched"
	"berty.tech/weshnet/v2/pkg/ipfsutil"
	"berty.tech/weshnet/v2/pkg/protocoltypes"
	"berty.tech/weshnet/v2/pkg/protoio"
)

// C06, second observation point: the AccountContactRequestIncomingReceived events appended by the real
// contactRequestsManager.handleIncomingRequest of a responder whose account group is open (real
// metadata store on the simulated node). Each session runs the real requester side (handshake +
// own contact message, as SendContactRequest does) against handleIncomingRequest over a simulated
// stream whose frames pass through the adversary. Oracle: an incoming-request event is appended only
// for the key whose holder took part in this very session (the honest requester of the session, or the
// adversary's own key when it is the requester); a failed request appends nothing; an untouched honest
// session completes and records exactly the requester's key, seed and metadata.

type c06pipe struct {
	mu     sync.Mutex
	ch     chan []byte
	rest   []byte
	closed bool
	// coalesce: one Read hands over everything that has been written so far (several frames in one read, as TCP does)
	coalesce bool
}

func newC06pipe() *c06pipe { return &c06pipe{ch: make(chan []byte, 256)} }

func (p *c06pipe) push(b []byte) {
	p.mu.Lock()
	defer p.mu.Unlock()
	if !p.closed {
		p.ch <- b
	}
}

func (p *c06pipe) close() {
	p.mu.Lock()
	defer p.mu.Unlock()
	if !p.closed {
		p.closed = true
		close(p.ch)
	}
}

func (p *c06pipe) Read(b []byte) (int, error) {
	if len(p.rest) == 0 {
		d, ok := <-p.ch
		if !ok {
			return 0, io.EOF
		}
		p.rest = d
		for p.coalesce {
			select {
			case more, ok := <-p.ch:
				if !ok {
					p.coalesce = false
					break
				}
				p.rest = append(p.rest, more...)
				continue
			default:
			}
			break
		}
	}
	n := copy(b, p.rest)
	p.rest = p.rest[n:]
	return n, nil
}

// c06end is one endpoint of a session: Read takes from its inbox, Write cuts the outgoing bytes into
// length-delimited frames and hands each complete frame to the adversary.
type c06end struct {
	network.Stream // nil: only Read and Write are used by the code under test
	in             *c06pipe
	out            []byte
	idx            int
	route          func(idx int, frame []byte)
	onReset        func()
}

func (e *c06end) Read(b []byte) (int, error) { return e.in.Read(b) }

// Reset and Close end the stream (the responder's stream handler resets it when it is done).
func (e *c06end) Reset() error {
	e.in.close()
	if e.onReset != nil {
		e.onReset()
	}
	return nil
}
func (e *c06end) Close() error { return e.Reset() }

func (e *c06end) Write(b []byte) (int, error) {
	e.out = append(e.out, b...)
	for {
		l, n := binary.Uvarint(e.out)
		if n <= 0 || uint64(len(e.out)-n) < l {
			return len(b), nil
		}
		frame := append([]byte(nil), e.out[n:n+int(l)]...)
		e.out = e.out[n+int(l):]
		e.route(e.idx, frame)
		e.idx++
	}
}

func c06delimited(frame []byte) []byte {
	var hdr [binary.MaxVarintLen64]byte
	n := binary.PutUvarint(hdr[:], uint64(len(frame)))
	return append(hdr[:n:n], frame...)
}

// c06host stands for the IPFS node of the responder: it only records the stream handler that the contact-request
// manager registers (every other method of the interface is absent: nil embedded interface).
type c06host struct {
	ipfsutil.ExtendedCoreAPI
	handler network.StreamHandler
}

func (h *c06host) SetStreamHandler(_ protocol.ID, f network.StreamHandler) { h.handler = f }
func (h *c06host) RemoveStreamHandler(protocol.ID)                          { h.handler = nil }

func TestVerifC06R(t *testing.T) {
	kernel.InstallCrypto(t)
	kernel.Component("contactRequestsManager.handleIncomingRequest, internal/handshake, protoio framing, account metadata store (ContactRequestIncomingReceived)", "real")
	kernel.Component("libp2p stream between requester and responder", "simulated (frames routed through the adversary)")
	kernel.Component("requester side of SendContactRequest", "real handshake + contact message written by the harness (the swarm connection it needs is not simulated)")
	kernel.Check(t, "C06", func(r *kernel.Run) {
		seed := r.Uint64("cryptoseed")
		r.Words(600)
		res := sched.Bubble(t, func() { c06rrun(r, seed) })
		if res != "" && !r.Failed() {
			r.Infra("bubble panicked: %s", res)
		}
	})
}

func c06rrun(r *kernel.Run, seed uint64) {
	ctx := context.Background()
	kernel.SeedCrypto(seed)
	s := newVSim(r)
	defer s.shutdown()
	n, err := s.addNode("responder", 4)
	if err != nil {
		r.Infra("node: %v", err)
		return
	}
	ag, _, err := n.ss.GetGroupForAccount()
	if err != nil {
		r.Infra("account: %v", err)
		return
	}
	if _, err := n.openGroup(ag); err != nil {
		r.Infra("open: %v", err)
		return
	}
	m := n.gcs[ag.GroupIDAsString()].MetadataStore()
	bsk, err := n.ss.GetAccountPrivateKey()
	if err != nil {
		r.Infra("account key: %v", err)
		return
	}
	host := &c06host{}
	mgr, err := newContactRequestsManager(nil, m, host, zap.NewNop()) // the real constructor (its metadata watcher runs too)
	if err != nil {
		r.Infra("contact request manager: %v", err)
		return
	}
	defer mgr.cancel()
	s.wait()
	// the responder serves requests through the stream handler its manager registers when contact requests are enabled
	viaHandler := r.Choose(2) == 0
	if viaHandler {
		mgr.muManager.Lock()
		err := mgr.enableContactRequest(ctx)
		mgr.muManager.Unlock()
		if err != nil || host.handler == nil {
			r.Infra("enable contact request: %v", err)
			return
		}
		r.Probe("served_through_registered_stream_handler")
	}
	esk, epk, _ := crypto.GenerateEd25519Key(nil)
	eraw, _ := epk.Raw()
	type rec struct {
		dir, idx int
		frame    []byte
	}
	var recorded []rec
	var honestKeys [][]byte
	nsessions := 1 + r.Choose(5)
	// flood mode: several refused requests in a row, then an honest one (whatever a responder keeps per refused request
	// - a slot, a counter, a table entry - must not make it deaf to the next honest requester)
	flood := 0
	if r.Choose(4) == 0 {
		flood = 4 + r.Choose(4)
		nsessions = flood + 1 + r.Choose(2)
		r.Fault("flood_of_refused_requests")
	}
	for si := 0; si < nsessions && !r.Failed(); si++ {
		kind := r.Choose(5) // 0 untouched honest, 1 honest with one fault on a handshake frame, 2 honest with the contact message altered, 3 adversary as requester under its own key, 4 honest with a recorded frame replayed
		if flood > 0 {
			if si < flood {
				kind = 1 + r.Choose(2)*2 // a fault on a handshake frame, or the adversary with a bad contact message
			} else {
				kind = 0
			}
		}
		var rsk crypto.PrivKey
		var rraw []byte
		if kind == 3 {
			rsk, rraw = esk, eraw
		} else {
			sk, pk, _ := crypto.GenerateEd25519Key(nil)
			rsk = sk
			rraw, _ = pk.Raw()
			honestKeys = append(honestKeys, rraw)
		}
		seedBytes := kernel.DetBytes(uint64(1000+si), 32)
		meta := []byte(fmt.Sprintf("meta-%d", si))
		contact := &protocoltypes.ShareableContact{Pk: rraw, PublicRendezvousSeed: seedBytes, Metadata: meta}
		// what the session does to the frames
		fdir, fidx, fop := -1, -1, -1
		what := "untouched"
		switch kind {
		case 1:
			fdir = r.Choose(2)
			fidx = r.Choose([]int{3, 2}[fdir]) // requester->responder: hello, authenticate, acknowledge; responder->requester: hello, accept
			fop = r.Choose(4)                  // bit flip, truncate, drop (close), duplicate
			what = fmt.Sprintf("fault %d on frame %d of direction %d", fop, fidx, fdir)
		case 2:
			fop = 10 + r.Choose(5)
			what = fmt.Sprintf("contact message altered (%d)", fop-10)
		case 3:
			fop = 20 + r.Choose(5)
			what = fmt.Sprintf("adversary as requester, contact variant %d", fop-20)
		case 4:
			if len(recorded) == 0 {
				kind, what = 0, "untouched"
			} else {
				fop = 30
				fdir = r.Choose(2)
				fidx = r.Choose([]int{4, 2}[fdir])
				what = fmt.Sprintf("frame %d of direction %d replaced by a recorded frame", fidx, fdir)
			}
		}
		pickA, pickB := r.Choose(1<<15), r.Choose(8) // drawn before the session: no draw happens on the parties' goroutines
		r.Logf("session %d: kind %d %s", si, kind, what)
		if kind != 0 {
			r.Fault(fmt.Sprintf("session_kind_%d", kind))
		}
		toResp, toReq := newC06pipe(), newC06pipe()
		if r.Choose(2) == 0 {
			toResp.coalesce, toReq.coalesce = true, true
			r.Fault("frames_coalesced_in_one_read")
		}
		var other []byte
		if len(honestKeys) > 1 {
			other = honestKeys[0]
		}
		route := func(dir int) func(idx int, frame []byte) {
			return func(idx int, frame []byte) {
				dst := toResp
				if dir == 1 {
					dst = toReq
				}
				recorded = append(recorded, rec{dir, idx, frame})
				out := [][]byte{frame}
				if dir == fdir && idx == fidx {
					switch fop {
					case 0:
						f := append([]byte(nil), frame...)
						if len(f) > 0 {
							f[pickA%len(f)] ^= 1 << pickB
						}
						out = [][]byte{f}
					case 1:
						out = [][]byte{frame[:len(frame)/2]}
					case 2:
						dst.close()
						return
					case 3:
						out = [][]byte{frame, frame}
					case 30:
						var cands []rec
						for _, c := range recorded[:len(recorded)-1] {
							if c.dir == dir {
								cands = append(cands, c)
							}
						}
						if len(cands) > 0 {
							out = [][]byte{cands[pickA%len(cands)].frame}
						}
					}
				}
				if dir == 0 && idx == 3 && fop >= 10 && fop < 20 { // the contact message in flight
					c := &protocoltypes.ShareableContact{}
					if proto.Unmarshal(frame, c) == nil {
						switch fop {
						case 10:
							c.Pk = eraw
						case 11:
							if other != nil && !bytes.Equal(other, rraw) {
								c.Pk = other
							} else {
								c.Pk = kernel.DetBytes(77, 32)
							}
						case 12:
							c.Metadata = []byte("altered")
						case 13:
							c.PublicRendezvousSeed = kernel.DetBytes(78, 31)
						case 14:
							c.Pk = nil
						}
						b, _ := proto.Marshal(c)
						out = [][]byte{b}
					}
				}
				for _, f := range out {
					dst.push(c06delimited(f))
				}
			}
		}
		reqEnd := &c06end{in: toReq, route: route(0)}
		respEnd := &c06end{in: toResp, route: route(1)}
		if kind == 3 {
			switch fop {
			case 21:
				if len(honestKeys) > 0 {
					contact.Pk = honestKeys[pickA%len(honestKeys)]
				} else {
					contact.Pk = kernel.DetBytes(79, 32)
				}
			case 22:
				contact.PublicRendezvousSeed = kernel.DetBytes(80, 31)
			case 23:
				contact.PublicRendezvousSeed = nil
			case 24:
				braw, _ := bsk.GetPublic().Raw()
				contact.Pk = braw
			}
		}
		before := m.OpLog().Len()
		var reqHS, reqErr, respErr error
		reqDone, respDone := false, false
		respEnd.onReset = toReq.close
		go func() {
			defer func() { respDone = true; toReq.close() }()
			if viaHandler {
				host.handler(respEnd) // logs its error; what it did is observed in the log below
				return
			}
			respErr = mgr.handleIncomingRequest(ctx, respEnd)
		}()
		go func() {
			defer func() { reqDone = true; toResp.close() }()
			reader := protoio.NewDelimitedReader(reqEnd, 2048)
			writer := protoio.NewDelimitedWriter(reqEnd)
			reqHS = handshake.RequestUsingReaderWriter(ctx, zap.NewNop(), reader, writer, rsk, bsk.GetPublic())
			if reqErr = reqHS; reqErr != nil {
				return
			}
			reqErr = writer.WriteMsg(contact)
		}()
		synctest.Wait()
		if !reqDone || !respDone {
			toReq.close()
			toResp.close()
			synctest.Wait()
		}
		if !reqDone || !respDone {
			r.Violate("panic", "handshake-panicked", "session %d (%s): a party does not return after its stream was closed (requester done=%v responder done=%v)", si, what, reqDone, respDone)
			return
		}
		s.wait()
		r.Step()
		// what was appended by this session
		var appended []*protocoltypes.AccountContactRequestIncomingReceived
		ents := m.OpLog().Values().Slice()
		for _, e := range ents[min(before, len(ents)):] {
			_, msg, err := openMetadataEntry(m.OpLog(), e, ag)
			if err != nil {
				continue
			}
			if ev, ok := msg.(*protocoltypes.AccountContactRequestIncomingReceived); ok {
				appended = append(appended, ev)
			}
		}
		if m.OpLog().Len() != before+len(appended) {
			r.Violate("responder", "unknown-key-reported", "session %d (%s): %d entries appended, %d of them incoming-request events", si, what, m.OpLog().Len()-before, len(appended))
			return
		}
		if respErr != nil && len(appended) > 0 {
			r.Violate("responder", "peer-not-authenticated-in-this-session", "session %d (%s): handleIncomingRequest failed (%v) but appended an incoming-request event", si, what, respErr)
			return
		}
		for _, ev := range appended {
			if !bytes.Equal(ev.ContactPk, rraw) {
				who := "a key nobody in this session holds"
				if bytes.Equal(ev.ContactPk, eraw) {
					who = "the adversary's key, which did not run the handshake of this session"
				}
				for _, h := range honestKeys {
					if bytes.Equal(h, ev.ContactPk) {
						who = "the key of an honest account that took no part in this session"
					}
				}
				r.Violate("responder", "peer-not-authenticated-in-this-session", "session %d (%s): an incoming contact request was recorded for %s (requester handshake result: %v)", si, what, who, reqHS)
				return
			}
			r.Probe("incoming_request_recorded")
		}
		if kind == 0 {
			if (respErr != nil && !viaHandler) || reqErr != nil || len(appended) != 1 {
				r.Violate("completeness", "honest-handshake-failed", "session %d: untouched honest request failed: requester=%v responder=%v appended=%d", si, reqErr, respErr, len(appended))
				return
			}
			if !bytes.Equal(appended[0].ContactRendezvousSeed, seedBytes) || !bytes.Equal(appended[0].ContactMetadata, meta) {
				r.Violate("completeness", "wrong-key-learned", "session %d: the recorded request does not carry the requester's seed and metadata", si)
				return
			}
			r.Probe("honest_request_recorded")
		}
		if (fop == 10 || fop == 11 || fop == 14 || fop == 21 || fop == 24) && len(appended) == 0 {
			r.Probe("mismatching_contact_refused")
		}
	}
	r.Nontrivial()
}
