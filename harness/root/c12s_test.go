//go:build verif

package weshnet

import (
	"bytes"
	"context"
	"fmt"
	"testing"

	"go.uber.org/zap"
	"google.golang.org/protobuf/proto"

	"berty.tech/weshnet/v2/internal/verifsim/kernel"
	"berty.tech/weshnet/v2/pkg/protocoltypes"
)

// C12, service level: the same statement observed at the service's MultiMemberGroupJoin. A real
// service (TestingService on an in-memory mocknet, as in C19: real goroutines, seeded history)
// receives a seeded session over 1-3 invitations: altered copies (type substitution, foreign
// secret/signature, single-bit flips in the authenticated fields, removed fields) and the genuine
// ones in any order, interleaved with activation, deactivation and GroupInfo. Model: the set of
// groups joined by a genuine invitation. Oracles: an altered invitation is refused and the list of
// joined groups does not change; whatever was refused before, a group joined by its genuine
// invitation is the group the invitation designates (type, secret) and the account acts in it under
// the member/device keys derived for it, never under an account key.

func TestVerifC12S(t *testing.T) {
	kernel.Component("protocol service: MultiMemberGroupJoin, ActivateGroup, DeactivateGroup, GroupInfo; account group metadata store; secret store", "real")
	kernel.Component("IPFS node and libp2p host", "real code on libp2p's in-memory mocknet (real goroutines, not scheduler-controlled)")
	kernel.Check(t, "C12", func(r *kernel.Run) { c12service(t, r) })
}

func c12service(t *testing.T, r *kernel.Run) {
	ctx, cancel := context.WithCancel(context.Background())
	defer cancel()
	svcI, cleanup := TestingService(ctx, t, Opts{Logger: zap.NewNop()})
	defer cleanup()
	svc := svcI.(*service)
	ag := svc.getAccountGroup()
	if ag == nil {
		r.Infra("no account group")
		return
	}
	accM, _ := ag.MemberPubKey().Raw()
	accD, _ := ag.DevicePubKey().Raw()
	var accP []byte
	if pk, err := svc.secretStore.GetAccountProofPublicKey(); err == nil {
		accP, _ = pk.Raw()
	}
	ngroups := r.Int("groups", 1, 3)
	invs := make([]*protocoltypes.Group, ngroups)
	joined := make([]bool, ngroups)
	for i := range invs {
		g, _, err := NewGroupMultiMember()
		if err != nil {
			r.Infra("group: %v", err)
			return
		}
		invs[i] = g
	}
	listed := func() int { return len(ag.MetadataStore().ListMultiMemberGroups()) }
	njoined := func() int {
		n := 0
		for _, j := range joined {
			if j {
				n++
			}
		}
		return n
	}
	alter := func(g *protocoltypes.Group) string {
		switch k := r.Pick("alteration", 9); k {
		case 0:
			g.GroupType = protocoltypes.GroupType_GroupTypeAccount
			return "type-account"
		case 1:
			g.GroupType = protocoltypes.GroupType_GroupTypeContact
			return "type-contact"
		case 2:
			g.GroupType = protocoltypes.GroupType_GroupTypeUndefined
			return "type-undefined"
		case 3:
			o, _, _ := NewGroupMultiMember()
			g.Secret = o.Secret
			return "secret-of-another-group"
		case 4:
			o, _, _ := NewGroupMultiMember()
			g.SecretSig = o.SecretSig
			return "signature-of-another-group"
		case 5:
			g.Secret = append([]byte(nil), g.Secret...)
			g.Secret[r.Pick("byte", len(g.Secret))] ^= 1 << r.Pick("bit", 8)
			return "bit-flip-secret"
		case 6:
			g.SecretSig = append([]byte(nil), g.SecretSig...)
			g.SecretSig[r.Pick("byte", len(g.SecretSig))] ^= 1 << r.Pick("bit", 8)
			return "bit-flip-signature"
		case 7:
			g.SecretSig = nil
			return "no-signature"
		default:
			g.Secret = nil
			return "no-secret"
		}
	}
	identity := func(i int, where string) bool {
		g := invs[i]
		info, err := svc.GroupInfo(ctx, &protocoltypes.GroupInfo_Request{GroupPk: g.PublicKey})
		r.Step()
		if err != nil {
			r.Violate("identity", "joined-group-unknown", "%s: GroupInfo of group %d, joined by its genuine invitation, fails: %v", where, i, err)
			return false
		}
		if info.Group == nil || info.Group.GroupType != g.GroupType || !bytes.Equal(info.Group.Secret, g.Secret) || !bytes.Equal(info.Group.PublicKey, g.PublicKey) {
			r.Violate("identity", "joined-group-is-not-the-invited-group", "%s: the service knows group %d, joined by its genuine invitation, as a group of type %v whose secret differs=%v", where, i, info.Group.GetGroupType(), !bytes.Equal(info.Group.GetSecret(), g.Secret))
			return false
		}
		keys := [][]byte{info.MemberPk, info.DevicePk}
		if gc, err := svc.GetContextGroupForID(g.PublicKey); err == nil && gc != nil {
			r.Probe("identity_checked_on_open_group")
			if gc.Group().GroupType != g.GroupType || !bytes.Equal(gc.Group().Secret, g.Secret) {
				r.Violate("identity", "joined-group-is-not-the-invited-group", "%s: group %d is open as a group of type %v whose secret differs=%v", where, i, gc.Group().GroupType, !bytes.Equal(gc.Group().Secret, g.Secret))
				return false
			}
			m, _ := gc.MemberPubKey().Raw()
			d, _ := gc.DevicePubKey().Raw()
			keys = append(keys, m, d)
		}
		for _, k := range keys {
			if bytes.Equal(k, accM) || bytes.Equal(k, accD) || (accP != nil && bytes.Equal(k, accP)) {
				r.Violate("identity", "account-identity-used-in-joined-group", "%s: in group %d, joined by its genuine invitation, the account acts under one of its account keys", where, i)
				return false
			}
		}
		return true
	}
	nsteps := r.Int("steps", 3, 10)
	r.Logf("service session: %d invitations, %d steps", ngroups, nsteps)
	for step := 0; step < nsteps && !r.Failed(); step++ {
		i := r.Pick("group", ngroups)
		switch a := r.Pick("action", 9); {
		case a == 8: // leave the group: later invitations for that identifier are judged on their own again
			r.Logf("step %d: leave %d (joined=%v)", step, i, joined[i])
			_, err := svc.MultiMemberGroupLeave(ctx, &protocoltypes.MultiMemberGroupLeave_Request{GroupPk: invs[i].PublicKey})
			r.Step()
			if joined[i] && err == nil {
				joined[i] = false
				r.Fault("group_left")
			}
			if listed() != njoined() {
				r.Violate("invitation", "joined-group-not-listed", "after leaving: %d groups listed for %d joined", listed(), njoined())
				return
			}
		case a <= 2: // an altered copy of invitation i
			g := proto.Clone(invs[i]).(*protocoltypes.Group)
			what := alter(g)
			r.Fault("altered_" + what)
			r.Logf("step %d: altered invitation %d (%s), genuine joined before=%v", step, i, what, joined[i])
			_, err := svc.MultiMemberGroupJoin(ctx, &protocoltypes.MultiMemberGroupJoin_Request{Group: g})
			r.Step()
			if err == nil || listed() != njoined() {
				r.Violate("invitation", "altered-invitation-accepted/"+what, "the service accepted an altered invitation (%s): err=%v, %d groups listed for %d joined", what, err, listed(), njoined())
				return
			}
			if !joined[i] {
				r.Probe("refused_before_genuine")
			}
		case a <= 4: // the genuine invitation
			r.Logf("step %d: genuine invitation %d (joined before=%v)", step, i, joined[i])
			_, err := svc.MultiMemberGroupJoin(ctx, &protocoltypes.MultiMemberGroupJoin_Request{Group: invs[i]})
			r.Step()
			if !joined[i] && err != nil {
				r.Violate("invitation", "genuine-invitation-refused", "the service refused the unaltered invitation %d: %v", i, err)
				return
			}
			joined[i] = true
			if listed() != njoined() {
				r.Violate("invitation", "joined-group-not-listed", "%d groups listed for %d joined", listed(), njoined())
				return
			}
			if !identity(i, fmt.Sprintf("step %d, after joining", step)) {
				return
			}
		case a == 5:
			r.Logf("step %d: activate %d (joined=%v)", step, i, joined[i])
			_, err := svc.ActivateGroup(ctx, &protocoltypes.ActivateGroup_Request{GroupPk: invs[i].PublicKey, LocalOnly: true})
			r.Step()
			if joined[i] {
				if err != nil {
					r.Violate("identity", "joined-group-cannot-be-activated", "step %d: group %d, joined by its genuine invitation, cannot be activated: %v", step, i, err)
					return
				}
				if !identity(i, fmt.Sprintf("step %d, after activation", step)) {
					return
				}
			}
		case a == 6:
			r.Logf("step %d: deactivate %d", step, i)
			_, _ = svc.DeactivateGroup(ctx, &protocoltypes.DeactivateGroup_Request{GroupPk: invs[i].PublicKey})
			r.Step()
		default:
			if joined[i] {
				r.Logf("step %d: info %d", step, i)
				if !identity(i, fmt.Sprintf("step %d", step)) {
					return
				}
			}
		}
	}
	for i := range invs {
		if !joined[i] {
			continue
		}
		if _, err := svc.ActivateGroup(ctx, &protocoltypes.ActivateGroup_Request{GroupPk: invs[i].PublicKey, LocalOnly: true}); err != nil {
			r.Violate("identity", "joined-group-cannot-be-activated", "at the end: group %d, joined by its genuine invitation, cannot be activated: %v", i, err)
			return
		}
		if !identity(i, "at the end") {
			return
		}
		r.Probe("service_joined_group_identity_checked")
	}
	r.Nontrivial()
}
