//go:build verif

package weshnet

import (
	"bytes"
	"context"
	"fmt"
	"strings"
	"testing"
	"time"

	"testing/synctest"

	"github.com/ipfs/go-cid"
	"go.uber.org/zap"

	"berty.tech/weshnet/v2/internal/verifsim/kernel"
	"berty.tech/weshnet/v2/internal/verifsim/sched"
	"berty.tech/weshnet/v2/pkg/errcode"
	"berty.tech/weshnet/v2/pkg/protocoltypes"
)

// C13: event listings follow log order and honour since/until/reverse exactly, on every replica and
// whatever the way the entries arrived. A writer appends 0..12 metadata and message entries; a
// second replica receives them entry by entry, in one batch, or mixed (simulator-chosen plan);
// then EVERY (since, until, reverse) combination over the entries plus an unknown identifier is
// listed on both replicas through MetadataStore.ListEvents / MessageStore.ListEvents and compared
// with the slice of the causal order. The same ranges are then requested through the service's
// GroupMetadataList / GroupMessageList streams (real methods on a service value holding the open group,
// fake server stream) with until_now and with an until identifier.

type c13metaStream struct {
	*c19stream
	got []string
}

func (s *c13metaStream) Send(e *protocoltypes.GroupMetadataEvent) error {
	c, err := cid.Cast(e.EventContext.Id)
	if err != nil {
		s.got = append(s.got, "?")
		return nil
	}
	s.got = append(s.got, c.String())
	return nil
}

type c13msgStream struct {
	*c19stream
	got []string
}

func (s *c13msgStream) Send(e *protocoltypes.GroupMessageEvent) error {
	c, err := cid.Cast(e.EventContext.Id)
	if err != nil {
		s.got = append(s.got, "?")
		return nil
	}
	s.got = append(s.got, c.String())
	return nil
}

func TestVerifC13(t *testing.T) {
	kernel.InstallCrypto(t)
	kernel.Component("MetadataStore.ListEvents / MessageStore.ListEvents, store_utils range selection", "real")
	kernel.Component("go-orbit-db base store + replicator, go-ipfs-log, secret store", "real")
	kernel.Component("pubsub, direct channel, DAG block exchange, clock", "simulated (SimNet/SimDag/synctest)")
	kernel.Check(t, "C13", func(r *kernel.Run) {
		seed := r.Uint64("cryptoseed")
		r.Words(1500)
		res := sched.Bubble(t, func() { c13run(r, seed) })
		if res != "" && !r.Failed() {
			r.Infra("bubble panicked: %s", res)
		}
	})
}

func c13collectMeta(ch <-chan *protocoltypes.GroupMetadataEvent) []string {
	var out []string
	for e := range ch {
		c, err := cid.Cast(e.EventContext.Id)
		if err != nil {
			out = append(out, "?")
			continue
		}
		out = append(out, c.String())
	}
	return out
}

func c13collectMsg(ch <-chan *protocoltypes.GroupMessageEvent) []string {
	var out []string
	for e := range ch {
		c, err := cid.Cast(e.EventContext.Id)
		if err != nil {
			out = append(out, "?")
			continue
		}
		out = append(out, c.String())
	}
	return out
}

// c13linear checks that got lists exactly the entries of want, each once, every entry after its causal parents.
func c13linear(got []string, want map[string]bool, parents map[string][]string) string {
	pos := map[string]int{}
	for i, c := range got {
		if _, dup := pos[c]; dup {
			return "an entry is listed twice"
		}
		if !want[c] {
			return "an entry that is not in the log is listed"
		}
		pos[c] = i
	}
	if len(pos) != len(want) {
		return fmt.Sprintf("%d of the %d entries held are listed", len(pos), len(want))
	}
	for c, ps := range parents {
		ci, ok := pos[c]
		if !ok {
			continue
		}
		for _, p := range ps {
			if pi, ok := pos[p]; ok && pi > ci {
				return fmt.Sprintf("entry #%d is listed before its causal parent #%d", ci, pi)
			}
		}
	}
	return ""
}

func c13run(r *kernel.Run, seed uint64) {
	ctx := context.Background()
	kernel.SeedCrypto(seed)
	s := newVSim(r)
	defer s.shutdown()
	s.w.EagerDag = r.Choose(2) == 0
	nmeta := r.Choose(7)
	nmsg := r.Choose(7)
	plan := r.Choose(4) // 0 replica online entry by entry, 1 one batch afterwards, 2 mixed (joins in the middle), 3 online, then partitioned, then the rest in one batch
	for i := 0; i < 2; i++ {
		if _, err := s.addNode(fmt.Sprintf("n%d", i), 100); err != nil {
			r.Infra("node: %v", err)
			return
		}
	}
	g, _, err := protocoltypes.NewGroupMultiMember()
	if err != nil {
		r.Infra("group: %v", err)
		return
	}
	for _, n := range s.nodes {
		if _, err := n.openGroup(g); err != nil {
			r.Infra("open: %v", err)
			return
		}
	}
	gid := g.GroupIDAsString()
	w, rep := s.nodes[0], s.nodes[1]
	// the replicas learn each other's chain key out of band (the listing of messages needs it)
	for _, pair := range [][2]*vnode{{w, rep}, {rep, w}} {
		amd, _ := pair[0].ss.GetOwnMemberDeviceForGroup(g)
		bmd, _ := pair[1].ss.GetOwnMemberDeviceForGroup(g)
		ann, err := pair[0].ss.GetShareableChainKey(ctx, g, bmd.Member())
		if err != nil {
			r.Infra("ann: %v", err)
			return
		}
		if err := pair[1].ss.RegisterChainKey(ctx, g, amd.Device(), ann); err != nil {
			r.Infra("register: %v", err)
			return
		}
	}
	// two writers: the second replica writes too, concurrently with the first whenever entries are still in flight or
	// the replicas are partitioned. The reference order is then no longer the append order of one writer: it is the
	// full listing itself, which must be a linear extension of the causal order (every entry after its parents), the
	// same on both replicas, and every range must be the contiguous slice of it.
	twoWriters := r.Choose(3) == 0
	r.Logf("listing: metadata=%d messages=%d plan=%d eagerdag=%v two_writers=%v", nmeta, nmsg, plan, s.w.EagerDag, twoWriters)
	parents := map[string][]string{}
	if plan == 0 || plan == 3 {
		s.connectAll()
	}
	cut := -1
	if plan == 3 {
		cut = 1 + r.Choose(4)
	}
	var metaOrder, msgOrder []string
	total := nmeta + nmsg
	mi, gi := 0, 0
	// midway listings: a store may cache or index what it handed out, later arrivals must still be listed in log order
	midList := func(where string) bool {
		for _, n := range s.nodes {
			gc := n.gcs[gid]
			for _, meta := range []bool{true, false} {
				held := map[string]bool{}
				for _, c := range logCIDs(gc, meta) {
					held[c] = true
				}
				order := metaOrder
				if !meta {
					order = msgOrder
				}
				var want []string
				for _, c := range order {
					if held[c] {
						want = append(want, c)
					}
				}
				var got []string
				if meta {
					ch, err := gc.MetadataStore().ListEvents(ctx, nil, nil, false)
					if err != nil {
						r.Violate("listing", "listing-failed", "%s: %v", where, err)
						return false
					}
					got = c13collectMeta(ch)
				} else {
					ch, err := gc.MessageStore().ListEvents(ctx, nil, nil, false)
					if err != nil {
						r.Violate("listing", "listing-failed", "%s: %v", where, err)
						return false
					}
					got = c13collectMsg(ch)
				}
				if twoWriters {
					if msg := c13linear(got, held, parents); msg != "" {
						r.Violate("listing", "wrong-order", "%s on %s (%s store): %s", where, n.name, map[bool]string{true: "metadata", false: "message"}[meta], msg)
						return false
					}
					continue
				}
				if !sameStrings(got, want) {
					r.Violate("listing", "wrong-order", "%s on %s (%s store): a full listing of the %d entries held does not follow log order", where, n.name, map[bool]string{true: "metadata", false: "message"}[meta], len(want))
					return false
				}
			}
		}
		r.Probe("midway_listing")
		return true
	}
	for k := 0; k < total; k++ {
		if plan == 2 && k == total/2 {
			s.connectAll()
		}
		if plan == 3 && k == cut {
			s.drain(false, 2000)
			if !midList("before the partition") {
				return
			}
			s.w.Disconnect(0, 1)
			r.Fault("partition")
		}
		wr := w
		if twoWriters && s.r.Choose(2) == 1 {
			wr = rep
			r.Probe("second_writer_wrote")
		}
		if (s.r.Choose(2) == 0 && mi < nmeta) || gi >= nmsg {
			op, err := wr.gcs[gid].MetadataStore().SendAppMetadata(ctx, []byte(fmt.Sprintf("meta-%d", mi)))
			if err != nil {
				r.Infra("append metadata: %v", err)
				return
			}
			metaOrder = append(metaOrder, op.GetEntry().GetHash().String())
			for _, p := range op.GetEntry().GetNext() {
				parents[op.GetEntry().GetHash().String()] = append(parents[op.GetEntry().GetHash().String()], p.String())
			}
			mi++
			s.wait() // the store's own reaction to the write (head publication) runs before the next simulator action
		} else {
			op, err := wr.gcs[gid].MessageStore().AddMessage(ctx, []byte(fmt.Sprintf("msg-%d", gi)))
			if err != nil {
				r.Infra("append message: %v", err)
				return
			}
			msgOrder = append(msgOrder, op.GetEntry().GetHash().String())
			for _, p := range op.GetEntry().GetNext() {
				parents[op.GetEntry().GetHash().String()] = append(parents[op.GetEntry().GetHash().String()], p.String())
			}
			gi++
			s.wait()
		}
		if plan != 1 && s.r.Choose(4) == 3 {
			s.wait()
			if !midList("midway") {
				return
			}
		}
		if plan != 1 {
			for k := s.r.Choose(5); k > 0; k-- {
				if !s.netStep(false) {
					break
				}
			}
		}
	}
	if !s.settle([]*protocoltypes.Group{g}) {
		r.Infra("no fixpoint")
		return
	}
	r.SimTime(time.Second)
	if s.delivered > 0 {
		r.Nontrivial()
	}
	switch plan {
	case 3:
		r.Fault("delivery_online_then_batch_after_partition")
	case 1:
		r.Fault("delivery_one_batch")
	case 2:
		r.Fault("delivery_mixed")
	default:
		r.Fault("delivery_entry_by_entry")
	}

	unknown := cid.NewCidV1(cid.Raw, []byte{0x12, 0x20, 1, 2, 3, 4, 5, 6, 7, 8, 9, 10, 11, 12, 13, 14, 15, 16, 17, 18, 19, 20, 21, 22, 23, 24, 25, 26, 27, 28, 29, 30, 31, 32}).Bytes()
	type lister func(since, until []byte, reverse bool) ([]string, error)
	check := func(where string, order []string, list lister) bool {
		ids := make([][]byte, len(order)+2)
		for i, c := range order {
			cc, _ := cid.Decode(c)
			ids[i] = cc.Bytes()
		}
		ids[len(order)] = nil       // open end
		ids[len(order)+1] = unknown // unknown identifier
		idx := func(b []byte) int {
			for i := range order {
				if bytes.Equal(ids[i], b) {
					return i
				}
			}
			return -1
		}
		for si, since := range ids {
			for ui, until := range ids {
				for _, rev := range []bool{false, true} {
					got, err := list(since, until, rev)
					r.Step()
					wantErr := false
					lo, hi := 0, len(order)-1
					if since != nil {
						if lo = idx(since); lo < 0 {
							wantErr = true
						}
					}
					if until != nil {
						if hi = idx(until); hi < 0 {
							wantErr = true
						}
					}
					if !wantErr && since != nil && until != nil && lo > hi {
						wantErr = true
					}
					desc := fmt.Sprintf("%s since=#%d until=#%d reverse=%v (log of %d)", where, si, ui, rev, len(order))
					if wantErr {
						r.Probe("invalid_range")
						if err == nil {
							r.Violate("range", "invalid-range-accepted", "%s: expected an invalid-range error, got %d events", desc, len(got))
							return false
						}
						if !errcode.Is(err, errcode.ErrCode_ErrInvalidRange) {
							r.Violate("range", "wrong-error", "%s: expected an invalid-range error, got %v", desc, err)
							return false
						}
						continue
					}
					if err != nil {
						r.Violate("range", "valid-range-refused", "%s: unexpected error %v", desc, err)
						return false
					}
					var want []string
					if len(order) > 0 {
						want = append(want, order[lo:hi+1]...)
					}
					if rev {
						for i, j := 0, len(want)-1; i < j; i, j = i+1, j-1 {
							want[i], want[j] = want[j], want[i]
						}
					}
					if !sameStrings(got, want) {
						short := func(xs []string) string {
							var o []string
							for _, x := range xs {
								o = append(o, fmt.Sprintf("#%d", func() int {
									for i, c := range order {
										if c == x {
											return i
										}
									}
									return -1
								}()))
							}
							return strings.Join(o, ",")
						}
						sig := "wrong-slice"
						if len(got) == len(want) {
							sig = "wrong-order"
						}
						r.Violate("listing", sig, "%s: listed [%s], expected [%s] (entries numbered in log order)", desc, short(got), short(want))
						return false
					}
				}
			}
		}
		return true
	}
	if twoWriters {
		for _, meta := range []bool{true, false} {
			appended := metaOrder
			if !meta {
				appended = msgOrder
			}
			all := map[string]bool{}
			for _, c := range appended {
				all[c] = true
			}
			var ref []string
			for i, n := range s.nodes {
				var got []string
				if meta {
					ch, err := n.gcs[gid].MetadataStore().ListEvents(ctx, nil, nil, false)
					if err != nil {
						r.Violate("listing", "listing-failed", "full listing on %s: %v", n.name, err)
						return
					}
					got = c13collectMeta(ch)
				} else {
					ch, err := n.gcs[gid].MessageStore().ListEvents(ctx, nil, nil, false)
					if err != nil {
						r.Violate("listing", "listing-failed", "full listing on %s: %v", n.name, err)
						return
					}
					got = c13collectMsg(ch)
				}
				if msg := c13linear(got, all, parents); msg != "" {
					r.Violate("listing", "wrong-order", "full listing on %s with two writers: %s", n.name, msg)
					return
				}
				if i == 0 {
					ref = got
				} else if !sameStrings(ref, got) {
					r.Violate("listing", "wrong-order", "two replicas holding the same %d entries (two writers, concurrent entries) list them in different orders", len(got))
					return
				}
			}
			if meta {
				metaOrder = ref
			} else {
				msgOrder = ref
			}
		}
		r.Probe("two_writers_reference_order")
	}
	for _, n := range s.nodes {
		gc := n.gcs[gid]
		if gc.MetadataStore().OpLog().Len() != len(metaOrder) || gc.MessageStore().OpLog().Len() != len(msgOrder) {
			r.Violate("replica", "replica-did-not-converge", "%s holds %d/%d metadata and %d/%d message entries at the fixpoint", n.name,
				gc.MetadataStore().OpLog().Len(), len(metaOrder), gc.MessageStore().OpLog().Len(), len(msgOrder))
			return
		}
		if !check(n.name+" metadata", metaOrder, func(since, until []byte, rev bool) ([]string, error) {
			ch, err := gc.MetadataStore().ListEvents(ctx, since, until, rev)
			if err != nil {
				return nil, err
			}
			return c13collectMeta(ch), nil
		}) {
			return
		}
		if !check(n.name+" messages", msgOrder, func(since, until []byte, rev bool) ([]string, error) {
			ch, err := gc.MessageStore().ListEvents(ctx, since, until, rev)
			if err != nil {
				return nil, err
			}
			return c13collectMsg(ch), nil
		}) {
			return
		}
	}
	r.Probe("all_ranges_checked")

	// the same listings through the service streams
	for _, n := range s.nodes {
		gc := n.gcs[gid]
		svc := &service{openedGroups: map[string]*GroupContext{string(g.PublicKey): gc}, logger: zap.NewNop()}
		rpc := func(meta bool) lister {
			return func(since, until []byte, rev bool) ([]string, error) {
				cctx, cancel := context.WithCancel(ctx)
				defer cancel()
				st := &c19stream{ctx: cctx}
				var got *[]string
				var call func() error
				untilNow := until == nil
				if meta {
					ms := &c13metaStream{c19stream: st}
					got = &ms.got
					call = func() error {
						return svc.GroupMetadataList(&protocoltypes.GroupMetadataList_Request{GroupPk: g.PublicKey, SinceId: since, UntilId: until, UntilNow: untilNow, ReverseOrder: rev}, ms)
					}
				} else {
					ms := &c13msgStream{c19stream: st}
					got = &ms.got
					call = func() error {
						return svc.GroupMessageList(&protocoltypes.GroupMessageList_Request{GroupPk: g.PublicKey, SinceId: since, UntilId: until, UntilNow: untilNow, ReverseOrder: rev}, ms)
					}
				}
				done := make(chan error, 1)
				go func() { done <- call() }()
				synctest.Wait()
				var err error
				select {
				case err = <-done:
				default:
					// with an until identifier the stream stays open after the range was sent; the client ends it
					r.Probe("rpc_stream_left_open_after_range")
					cancel()
					synctest.Wait()
					select {
					case err = <-done:
					default:
						r.Violate("listing", "listing-failed", "%s: stream does not end after its context was cancelled", n.name)
						return nil, nil
					}
				}
				return *got, err
			}
		}
		if !check(n.name+" metadata (GroupMetadataList stream)", metaOrder, rpc(true)) {
			return
		}
		if !check(n.name+" messages (GroupMessageList stream)", msgOrder, rpc(false)) {
			return
		}
	}
	r.Probe("all_ranges_checked_through_rpc")
}
