//go:build verif

package weshnet

import (
	"context"
	"fmt"
	"sort"
	"strings"
	"time"

	"github.com/libp2p/go-libp2p/core/crypto"

	"berty.tech/weshnet/v2/internal/verifsim/kernel"
	"berty.tech/weshnet/v2/pkg/protocoltypes"
)

// C04, second scenario: multi-member and contact groups. 2-4 devices of different accounts (optionally
// two of them devices of one account) hold one group and perform the group-level metadata operations
// (member-device announcement, ownership claim, secret for a member, alias key / alias proof, app
// metadata, replication notice) while the simulator owns deliveries, partitions, restarts and
// re-indexing. The compared state is the replica-independent part of what the getters expose:
// members, devices (with the member of each), admins. Reference: set insertion in log order.

func groupDigest(m *MetadataStore) string {
	var sb strings.Builder
	fmt.Fprintf(&sb, "members=%s;devices=%s;admins=%s;", sortedPKs(m.ListMembers()), sortedPKs(m.ListDevices()), sortedPKs(m.ListAdmins()))
	var rel []string
	for _, d := range m.ListDevices() {
		mem, err := m.GetMemberByDevice(d)
		if err != nil {
			rel = append(rel, pkHex(d)+"->?")
			continue
		}
		rel = append(rel, pkHex(d)+"->"+pkHex(mem))
	}
	sort.Strings(rel)
	fmt.Fprintf(&sb, "member-of-device=%s;", strings.Join(rel, ","))
	var per []string
	for _, mem := range m.ListMembers() {
		ds, _ := m.GetDevicesForMember(mem)
		per = append(per, pkHex(mem)+":"+sortedPKs(ds))
	}
	sort.Strings(per)
	fmt.Fprintf(&sb, "devices-of-member=%s;", strings.Join(per, " "))
	return sb.String()
}

func c04group(r *kernel.Run, seed uint64) {
	ctx := context.Background()
	kernel.SeedCrypto(seed)
	s := newVSim(r)
	defer s.shutdown()
	contactGroup := r.Choose(3) == 0
	nn := 2 + r.Choose(3)
	if contactGroup {
		nn = 2
	}
	twoDevices := !contactGroup && nn >= 3 && r.Choose(2) == 0
	s.w.EagerDag = r.Choose(2) == 0
	if r.Choose(2) == 1 {
		s.dropRate = 1 + r.Choose(12)
	}
	if r.Choose(2) == 1 {
		s.dupRate = 1 + r.Choose(8)
	}
	nops := 1 + r.Choose(14)
	r.Logf("group scenario: contact=%v nodes=%d second-device=%v eagerdag=%v drop=%d/64 dup=%d/64 ops=%d", contactGroup, nn, twoDevices, s.w.EagerDag, s.dropRate, s.dupRate, nops)
	for i := 0; i < nn; i++ {
		n, err := s.addNode(fmt.Sprintf("n%d", i), 4)
		if err != nil {
			r.Infra("node: %v", err)
			return
		}
		if twoDevices && i == nn-1 {
			if err := n.importAccountFrom(s.nodes[0]); err != nil {
				r.Infra("import: %v", err)
				return
			}
		}
	}
	var g *protocoltypes.Group
	var gsk crypto.PrivKey
	var err error
	if contactGroup {
		var pk crypto.PubKey
		if ag, _, e := s.nodes[1].ss.GetGroupForAccount(); e == nil {
			pk, _ = ag.GetPubKey()
		}
		g, err = s.nodes[0].ss.GetGroupForContact(pk)
		r.Probe("contact_group_scenario")
	} else {
		g, gsk, err = protocoltypes.NewGroupMultiMember()
		r.Probe("multimember_group_scenario")
	}
	if err != nil {
		r.Infra("group: %v", err)
		return
	}
	for _, n := range s.nodes {
		if _, err := n.openGroup(g); err != nil {
			r.Infra("open: %v", err)
			return
		}
	}
	s.connectAll()
	gid := g.GroupIDAsString()
	memberOf := func(n *vnode) string { return pkHex(n.gcs[gid].MemberPubKey()) }
	deviceOf := func(n *vnode) string { return pkHex(n.gcs[gid].DevicePubKey()) }

	// reference state: set insertion
	members, devices, admins := map[string]bool{}, map[string]string{}, map[string]bool{}
	written := 0
	ops := []string{"adddev", "adddev", "claim", "secret", "alias", "app", "replicating"}

	doOp := func(n *vnode) {
		s.wait()
		m := n.gcs[gid].MetadataStore()
		before := m.OpLog().Len()
		k := ops[s.r.Choose(len(ops))]
		var err error
		switch k {
		case "adddev":
			_, err = m.AddDeviceToGroup(ctx)
		case "claim":
			if gsk == nil || n != s.nodes[0] {
				k = "app"
				_, err = m.SendAppMetadata(ctx, []byte("x"))
			} else {
				_, err = m.ClaimGroupOwnership(ctx, gsk)
			}
		case "secret":
			o := s.nodes[s.r.Choose(len(s.nodes))]
			_, err = m.SendSecret(ctx, o.gcs[gid].MemberPubKey())
		case "alias":
			if contactGroup {
				_, err = m.ContactSendAliasKey(ctx)
			} else {
				_, err = m.SendAliasProof(ctx)
			}
		case "app":
			_, err = m.SendAppMetadata(ctx, []byte(fmt.Sprintf("app-%d", written)))
		case "replicating":
			_, err = m.SendGroupReplicating(ctx, "https://auth.example/", "replication.example:443")
		}
		s.wait()
		after := m.OpLog().Len()
		r.Logf("op %s on %s -> err=%v appended=%d", k, n.name, err != nil, after-before)
		if after > before {
			written += after - before
			// ground truth = the appended entry itself, decoded: which member/device it announces, which key it makes admin
			last := m.OpLog().GetEntries().Slice()[after-1]
			_, msg, derr := openMetadataEntry(m.OpLog(), last, g)
			if derr != nil {
				r.Infra("cannot decode the entry just appended by %s: %v", k, derr)
				return
			}
			hexOf := func(raw []byte) string {
				pk, err := crypto.UnmarshalEd25519PublicKey(raw)
				if err != nil {
					return "?"
				}
				return pkHex(pk)
			}
			switch ev := msg.(type) {
			case *protocoltypes.GroupMemberDeviceAdded:
				if hexOf(ev.MemberPk) != memberOf(n) || hexOf(ev.DevicePk) != deviceOf(n) {
					r.Violate("fold", "state-differs-from-fold", "%s announced member %s device %s but acts in the group as member %s device %s", n.name, hexOf(ev.MemberPk), hexOf(ev.DevicePk), memberOf(n), deviceOf(n))
					return
				}
				members[hexOf(ev.MemberPk)] = true
				if _, known := devices[hexOf(ev.DevicePk)]; !known {
					devices[hexOf(ev.DevicePk)] = hexOf(ev.MemberPk)
				}
			case *protocoltypes.MultiMemberGroupInitialMemberAnnounced:
				admins[hexOf(ev.MemberPk)] = true
			}
		}
	}

	checkPairs := func(where string) {
		s.wait()
		type obs struct {
			name, digest string
			cids         []string
		}
		var all []obs
		for _, n := range s.nodes {
			gc, ok := n.gcs[gid]
			if !ok {
				continue
			}
			d := groupDigest(gc.MetadataStore())
			all = append(all, obs{n.name, d, logCIDs(gc, true)})
			r.State(shortHash(d))
		}
		for i := range all {
			for j := i + 1; j < len(all); j++ {
				if sameStrings(all[i].cids, all[j].cids) && all[i].digest != all[j].digest {
					r.Violate("convergence", "same-entries-different-state", "%s: replicas %s and %s hold the same %d metadata entries of the group but report different members/devices/admins:\n  %s: %s\n  %s: %s",
						where, all[i].name, all[j].name, len(all[i].cids), all[i].name, all[i].digest, all[j].name, all[j].digest)
					return
				}
			}
		}
	}

	partitioned := [][2]int{}
	for op := 0; op < nops && !r.Failed(); op++ {
		for k := s.r.Choose(12); k > 0; k-- {
			if !s.netStep(true) {
				break
			}
		}
		switch s.r.Choose(10) {
		case 0:
			a, b := s.r.Choose(nn), s.r.Choose(nn)
			if a != b && s.w.Connected(a, b) {
				s.w.Disconnect(a, b)
				partitioned = append(partitioned, [2]int{a, b})
				r.Fault("partition")
				r.Logf("partition %s|%s", s.nodes[a].name, s.nodes[b].name)
			}
		case 1:
			if len(partitioned) > 0 {
				p := partitioned[0]
				partitioned = partitioned[1:]
				s.w.Connect(p[0], p[1])
				r.Fault("heal")
				r.Logf("heal %s|%s", s.nodes[p[0]].name, s.nodes[p[1]].name)
			}
		case 2:
			n := s.nodes[s.r.Choose(nn)]
			s.wait()
			gc := n.gcs[gid]
			beforeD, beforeC := groupDigest(gc.MetadataStore()), logCIDs(gc, true)
			n.stop()
			s.w.Restart(n.nn)
			s.wait()
			if err := n.start(); err != nil {
				r.Infra("restart: %v", err)
				return
			}
			gc2, err := n.openGroup(g)
			if err != nil {
				r.Infra("reopen: %v", err)
				return
			}
			s.wait()
			r.Fault("restart")
			r.Logf("restart %s", n.name)
			if afterC := logCIDs(gc2, true); sameStrings(beforeC, afterC) {
				if afterD := groupDigest(gc2.MetadataStore()); afterD != beforeD {
					r.Violate("reopen", "state-changed-by-reopen", "replica %s reports different members/devices/admins after closing and reopening the group with the same %d entries:\n  before: %s\n  after:  %s", n.name, len(afterC), beforeD, afterD)
					return
				}
				r.Probe("reopen_same_entries")
			}
			for i := range s.nodes {
				if i != n.nn.Index {
					s.w.Rejoin(i, n.nn.Index)
				}
			}
		case 3:
			n := s.nodes[s.r.Choose(nn)]
			s.wait()
			m := n.gcs[gid].MetadataStore()
			beforeD := groupDigest(m)
			for k := 1 + s.r.Choose(2); k > 0; k-- {
				_ = m.Index().UpdateIndex(m.OpLog(), nil)
			}
			if afterD := groupDigest(m); afterD != beforeD {
				r.Violate("reindex", "state-changed-by-reindex", "replica %s reports different members/devices/admins after re-indexing the same log:\n  before: %s\n  after:  %s", n.name, beforeD, afterD)
				return
			}
			r.Probe("reindex")
		}
		doOp(s.nodes[s.r.Choose(nn)])
		checkPairs(fmt.Sprintf("after op %d", op))
	}
	if r.Failed() {
		return
	}
	if !s.settle([]*protocoltypes.Group{g}) {
		r.Infra("no fixpoint after 40 anti-entropy rounds")
		return
	}
	r.SimTime(time.Second)
	var ref []string
	for i, n := range s.nodes {
		c := logCIDs(n.gcs[gid], true)
		if i == 0 {
			ref = c
		} else if !sameStrings(ref, c) {
			r.Violate("fixpoint", "entries-not-converged", "after faults stopped and head exchange reached a fixpoint, %s holds %d entries and %s holds %d", s.nodes[0].name, len(ref), n.name, len(c))
			return
		}
	}
	if len(ref) != written {
		r.Violate("fixpoint", "entries-lost", "%d entries were appended but replicas hold %d at the fixpoint", written, len(ref))
		return
	}
	checkPairs("at the fixpoint")
	if r.Failed() {
		return
	}
	if s.delivered > 0 {
		r.Nontrivial()
	}
	// reference: sets built from the operations that appended
	var ms, ds, as, rel []string
	for k := range members {
		ms = append(ms, k)
	}
	for k, v := range devices {
		ds = append(ds, k)
		rel = append(rel, k+"->"+v)
	}
	for k := range admins {
		as = append(as, k)
	}
	if contactGroup { // in a contact group every member is an admin (MetadataStore.ListAdmins)
		as = append([]string(nil), ms...)
	}
	sort.Strings(ms)
	sort.Strings(ds)
	sort.Strings(as)
	sort.Strings(rel)
	want := fmt.Sprintf("members=%s;devices=%s;admins=%s;member-of-device=%s;", strings.Join(ms, ","), strings.Join(ds, ","), strings.Join(as, ","), strings.Join(rel, ","))
	for _, n := range s.nodes {
		got := groupDigest(n.gcs[gid].MetadataStore())
		if !strings.HasPrefix(got, want) {
			r.Violate("fold", "state-differs-from-fold", "group history of %d entries: replica %s reports\n  %s\nbut the announcements and claims that were appended give\n  %s", written, n.name, got, want)
			return
		}
	}
	r.Probe("group_fold_checked")
	if len(admins) > 0 {
		r.Probe("group_admin_claimed")
	}
	if len(devices) >= 2 {
		r.Probe("group_several_devices")
	}
}
