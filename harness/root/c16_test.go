//go:build verif

package weshnet

import (
	"context"
	"fmt"
	"sort"
	"strings"
	"sync"
	"sync/atomic"
	"testing"
	"time"

	"github.com/anishathalye/porcupine"
	peer "github.com/libp2p/go-libp2p/core/peer"

	"berty.tech/weshnet/v2/internal/verifsim/kernel"
	"berty.tech/weshnet/v2/internal/verifsim/sched"
)

// C16 (connectedness tracker): no deadlock, no missed update, returned sets are exactly the peers
// whose status differs, cancelled waits return. connectedness_manager.go and internal/notify are
// instrumented at check time; the goroutine schedule is a seeded choice.

type c16in struct {
	op    string // assoc, update, wait
	group string
	peer  string
	st    int
	seen  string // canonical encoding of the waiter's map before the call
}
type c16out struct {
	updated string // sorted peers joined by ','
	ok      bool
}

func c16enc(m map[string]int) string {
	keys := make([]string, 0, len(m))
	for k := range m {
		keys = append(keys, k)
	}
	sort.Strings(keys)
	var sb strings.Builder
	for _, k := range keys {
		fmt.Fprintf(&sb, "%s=%d;", k, m[k])
	}
	return sb.String()
}

func c16dec(s string) map[string]int {
	m := map[string]int{}
	for _, kv := range strings.Split(s, ";") {
		if kv == "" {
			continue
		}
		var k string
		var v int
		i := strings.IndexByte(kv, '=')
		k = kv[:i]
		fmt.Sscanf(kv[i+1:], "%d", &v)
		m[k] = v
	}
	return m
}

// model state: "assoc|status" with assoc = "g/p;" entries and status = "p=st;" entries
var c16model = porcupine.Model{
	Init: func() interface{} { return "|" },
	Step: func(state, input, output interface{}) (bool, interface{}) {
		parts := strings.SplitN(state.(string), "|", 2)
		assoc := map[string]bool{}
		for _, a := range strings.Split(parts[0], ";") {
			if a != "" {
				assoc[a] = true
			}
		}
		status := c16dec(parts[1])
		in, out := input.(c16in), output.(c16out)
		enc := func() string {
			ks := make([]string, 0, len(assoc))
			for k := range assoc {
				ks = append(ks, k)
			}
			sort.Strings(ks)
			return strings.Join(ks, ";") + "|" + c16enc(status)
		}
		switch in.op {
		case "assoc":
			assoc[in.group+"/"+in.peer] = true
			if _, ok := status[in.peer]; !ok {
				status[in.peer] = 0
			}
			return true, enc()
		case "update":
			status[in.peer] = in.st
			return true, enc()
		case "wait":
			if !out.ok {
				return out.updated == "", enc() // cancelled: negative result, nothing reported
			}
			seen := c16dec(in.seen)
			var diff []string
			for a := range assoc {
				if !strings.HasPrefix(a, in.group+"/") {
					continue
				}
				p := strings.TrimPrefix(a, in.group+"/")
				if v, ok := seen[p]; !ok || v != status[p] {
					diff = append(diff, p)
				}
			}
			sort.Strings(diff)
			return len(diff) > 0 && strings.Join(diff, ",") == out.updated, enc()
		}
		return false, enc()
	},
	Equal: func(a, b interface{}) bool { return a.(string) == b.(string) },
}

func TestVerifC16(t *testing.T) {
	kernel.Component("ConnectednessManager + internal/notify", "real (instrumented copies of the working tree)")
	kernel.Component("goroutine scheduling at lock/unlock/channel operations", "simulated (seeded cooperative scheduler in a synctest bubble)")
	kernel.Check(t, "C16", func(r *kernel.Run) {
		strategy := r.Pick("strategy", 3)
		r.Words(512)
		res := sched.Bubble(t, func() { c16connectedness(r, strategy) })
		if res != "" && !r.Failed() {
			r.Infra("bubble panicked: %s", res)
		}
	})
}

func c16connectedness(r *kernel.Run, strategy int) {
	m := NewConnectednessManager()
	nwaiters := 1 + r.Choose(2)
	// every waiter has its own context: cancelling one waiter must not disturb the others
	ctxs := make([]context.Context, nwaiters)
	cancels := make([]context.CancelFunc, nwaiters)
	for i := range ctxs {
		ctxs[i], cancels[i] = context.WithCancel(context.Background())
		defer cancels[i]()
	}
	cancelTarget := r.Choose(nwaiters + 1) // index of the waiter to cancel, nwaiters = all
	nupd := 1 + r.Choose(3)
	withCancel := r.Choose(4) == 3
	groups := []string{"g0", "g1"}
	peers := []string{"p0", "p1"}
	type upd struct {
		assoc bool
		g, p  string
		st    int
	}
	plan := make([]upd, nupd)
	for i := range plan {
		plan[i] = upd{assoc: r.Choose(2) == 0, g: groups[r.Choose(2)], p: peers[r.Choose(2)], st: 1 + r.Choose(2)}
	}
	// pre-association (before any concurrency) so that updates have subscribers
	pre := r.Choose(3)
	if pre >= 1 {
		m.AssociatePeer("g0", peer.ID("p0"))
	}
	if pre == 2 {
		m.AssociatePeer("g0", peer.ID("p1"))
	}
	r.Logf("connectedness: waiters=%d updates=%v cancel=%v target=%d pre=%d strategy=%d", nwaiters, plan, withCancel, cancelTarget, pre, strategy)

	var seq atomic.Int64
	var hmu sync.Mutex
	var ops []porcupine.Operation
	rec := func(c int, in c16in, call int64, out c16out) {
		hmu.Lock()
		ops = append(ops, porcupine.Operation{ClientId: c, Input: in, Call: call, Output: out, Return: seq.Add(1)})
		hmu.Unlock()
	}
	// the pre-associations are part of the history
	if pre >= 1 {
		rec(9, c16in{op: "assoc", group: "g0", peer: "p0"}, seq.Add(1), c16out{})
	}
	if pre == 2 {
		rec(9, c16in{op: "assoc", group: "g0", peer: "p1"}, seq.Add(1), c16out{})
	}
	s := sched.New(r.Choose, strategy, func(f string, a ...any) { r.Logf(f, a...); r.Step() })
	cancelledW := make([]atomic.Bool, nwaiters)
	var cancelled atomic.Bool
	updaterDone := atomic.Bool{}
	type wstate struct {
		current PeersConnectedness
		group   string
		rounds  int
	}
	ws := make([]*wstate, nwaiters)
	for i := range ws {
		w := &wstate{current: PeersConnectedness{}, group: "g0"}
		if i == 1 && r.Choose(3) == 2 {
			w.group = "g1"
		}
		ws[i] = w
		i := i
		s.Go(fmt.Sprintf("waiter%d", i), func() {
			for w.rounds < 4 {
				seen := map[string]int{}
				for p, st := range w.current {
					seen[string(p)] = int(st)
				}
				call := seq.Add(1)
				updated, ok := m.WaitForConnectednessChange(ctxs[i], w.group, w.current)
				us := make([]string, len(updated))
				for j, p := range updated {
					us[j] = string(p)
				}
				sort.Strings(us)
				rec(i, c16in{op: "wait", group: w.group, seen: c16enc(seen)}, call, c16out{updated: strings.Join(us, ","), ok: ok})
				w.rounds++
				if !ok {
					return
				}
			}
		})
	}
	s.Go("updater", func() {
		for _, u := range plan {
			call := seq.Add(1)
			if u.assoc {
				m.AssociatePeer(u.g, peer.ID(u.p))
				rec(8, c16in{op: "assoc", group: u.g, peer: u.p}, call, c16out{})
			} else {
				m.UpdateState(peer.ID(u.p), ConnectednessType(u.st))
				rec(8, c16in{op: "update", peer: u.p, st: u.st}, call, c16out{})
			}
		}
		updaterDone.Store(true)
	})
	if withCancel {
		s.Go("canceller", func() {
			cancelled.Store(true)
			for i := range cancels {
				if cancelTarget == nwaiters || cancelTarget == i {
					cancelledW[i].Store(true)
					cancels[i]()
				}
			}
		})
	}
	for s.Steps < 800 && s.Step() {
	}
	st := s.Status()
	if s.Preemptions > 0 {
		r.Nontrivial()
		r.Fault("preemption")
	}
	if cancelled.Load() {
		r.Fault("cancellation")
	}
	if len(st.LockBlocked) > 0 {
		var desc []string
		for _, t := range st.LockBlocked {
			desc = append(desc, fmt.Sprintf("%s waits at %s for a lock held by %s", t.Label, t.Site, s.Holder(t)))
		}
		sort.Strings(desc)
		r.Violate("deadlock", "connectedness-deadlock", "deadlock: %s", strings.Join(desc, "; "))
	}
	for _, t := range st.RealBlocked {
		if !strings.HasPrefix(t.Label, "waiter") {
			r.Violate("stuck", "task-stuck", "task %s is blocked in %s", t.Label, t.BlockedIn())
			continue
		}
		r.Probe("waiter_blocked_at_end")
		var wi int
		fmt.Sscanf(t.Label, "waiter%d", &wi)
		w := ws[wi]
		if cancelledW[wi].Load() {
			r.Violate("cancel", "cancelled-wait-blocked", "%s: context cancelled but WaitForConnectednessChange is still blocked in %s", t.Label, t.BlockedIn())
			continue
		}
		if !updaterDone.Load() {
			continue
		}
		// missed update: the tracked state must equal what this waiter last saw
		if sg, ok := m.groupState[w.group]; ok {
			var pids []peer.ID
			for p := range sg.peers {
				pids = append(pids, p)
			}
			sort.Slice(pids, func(i, j int) bool { return pids[i] < pids[j] })
			for _, p := range pids {
				ps := sg.peers[p]
				seen, ok := w.current[p]
				if !ok || seen != ps.status {
					r.Violate("missed-update", "waiter-blocked-with-stale-view", "%s is blocked in %s although peer %s of group %s has status %d and the waiter last saw %v (known=%v); the updater has finished",
						t.Label, t.BlockedIn(), string(p), w.group, ps.status, seen, ok)
				}
			}
		}
	}
	for _, c := range cancels {
		c()
	}
	s.Abort()
	if r.Failed() {
		return
	}
	switch porcupine.CheckOperationsTimeout(c16model, ops, 10*time.Second) {
	case porcupine.Illegal:
		var sb strings.Builder
		for _, o := range ops {
			fmt.Fprintf(&sb, "[c%d %+v@%d -> %+v@%d] ", o.ClientId, o.Input, o.Call, o.Output, o.Return)
		}
		r.Violate("linearizability", "connectedness-history-illegal", "history not linearizable against the connectedness-map model: %s", sb.String())
	case porcupine.Unknown:
		r.Probe("porcupine_inconclusive")
	default:
		r.Probe("history_linearizable")
	}
}
