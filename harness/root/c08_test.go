//go:build verif

package weshnet

import (
	"context"
	"fmt"
	"sort"
	"strings"
	"testing"
	"time"

	"github.com/ipfs/go-cid"
	"github.com/libp2p/go-libp2p/core/event"
	"github.com/libp2p/go-libp2p/p2p/host/eventbus"

	"berty.tech/weshnet/v2/internal/verifsim/kernel"
	"berty.tech/weshnet/v2/internal/verifsim/sched"
	"berty.tech/weshnet/v2/pkg/protocoltypes"
)

// C08 (and C05 part b): every decryptable message in the log is delivered, none stays parked; once
// all metadata entries have been exchanged every device holds the chain key of every other announced
// device. Real devices (real GroupContext activation, metadata watcher, message pipeline with its two
// queues, secret store, orbit-db) of a multi-member group run over SimNet; devices activate and send
// at drawn times, entries and chain-key announcements arrive in simulator-chosen order and batches.
// TestVerifC08C additionally instruments the message pipeline (store_message.go, group_context.go,
// internal/queue) and lets the seeded cooperative scheduler interleave its goroutines at every
// lock/unlock/select between the external events.

type c08msg struct {
	cid     string
	sender  int
	payload string
	// mustReach[d] = the sender had already announced its chain key to d's member when it sealed this message
	mustReach map[int]bool
}

func TestVerifC08M(t *testing.T) { c08test(t, false) }

// TestVerifC05b is the completeness half of C05 (every device ends up holding the chain key of every other
// announced device, whatever the join order and delivery plan): same macro scenario, reported under C05.
func TestVerifC05b(t *testing.T) {
	c08property = "C05"
	c08test(t, false)
}

// TestVerifC05c is the same completeness clause under the cooperative scheduler: activation, the metadata watcher
// and the arrival of entries interleave at the instrumented points (an entry can arrive in the middle of an activation).
func TestVerifC05c(t *testing.T) {
	c08property = "C05"
	c08test(t, true)
}

var c08property = "C08"

func TestVerifC08C(t *testing.T) { c08test(t, true) }

func c08test(t *testing.T, controlled bool) {
	kernel.InstallCrypto(t)
	kernel.Component("GroupContext activation + metadata watcher, MessageStore pipeline (messagesQueue, per-device caches), secret store", "real")
	kernel.Component("go-orbit-db base store + replicator, go-ipfs-log", "real")
	kernel.Component("pubsub, direct channel, DAG block exchange, clock", "simulated (SimNet/SimDag/synctest)")
	if controlled {
		kernel.Component("goroutine scheduling inside the message pipeline", "simulated (seeded cooperative scheduler at instrumented lock/unlock/select points)")
	}
	kernel.Check(t, c08property, func(r *kernel.Run) {
		seed := r.Uint64("cryptoseed")
		r.Words(4000)
		res := sched.Bubble(t, func() { c08run(r, seed, controlled) })
		if res != "" && !r.Failed() {
			r.Infra("bubble panicked: %s", res)
		}
	})
}

func c08run(r *kernel.Run, seed uint64, controlled bool) {
	ctx := context.Background()
	kernel.SeedCrypto(seed)
	sched.Deactivate()
	s := newVSim(r)
	var sc *sched.S
	var subs []event.Subscription
	defer func() {
		// teardown on every path: wake everything, let scheduled tasks exit, close the nodes
		for _, sub := range subs {
			if sub != nil {
				sub.Close()
			}
		}
		if sc != nil {
			for _, n := range s.nodes {
				for _, gc := range n.gcs {
					gc.cancel()
				}
				n.cancel()
			}
			sc.Abort()
		}
		s.shutdown()
	}()
	s.w.EagerDag = r.Choose(2) == 0
	ndev := 2 + r.Choose(2)
	if c08property == "C05" {
		ndev = 2 + r.Choose(3)
	}
	if controlled {
		ndev = 2
	}
	sameAccount := r.Choose(3) == 2            // two devices of one member
	window := []int{100, 1, 2, 3}[r.Choose(4)] // precomputed-keys window of every store: small windows make out-of-order arrivals miss and retry
	if !controlled {                           // lossy and duplicating network during the history (repaired by head exchange at the end)
		if r.Choose(2) == 1 {
			s.dropRate = 1 + r.Choose(10)
		}
		if r.Choose(2) == 1 {
			s.dupRate = 1 + r.Choose(10)
		}
	}
	for i := 0; i < ndev; i++ {
		n, err := s.addNode(fmt.Sprintf("d%d", i), window)
		if err != nil {
			r.Infra("node: %v", err)
			return
		}
		if sameAccount && i == 1 {
			if err := n.importAccountFrom(s.nodes[0]); err != nil {
				r.Infra("import: %v", err)
				return
			}
		}
	}
	g, _, err := protocoltypes.NewGroupMultiMember()
	if err != nil {
		r.Infra("group: %v", err)
		return
	}
	gid := g.GroupIDAsString()
	subs = make([]event.Subscription, ndev)
	for i, n := range s.nodes {
		gc, err := n.openGroup(g)
		if err != nil {
			r.Infra("open: %v", err)
			return
		}
		subs[i], err = gc.MessageStore().EventBus().Subscribe(new(*protocoltypes.GroupMessageEvent), eventbus.BufSize(8192))
		if err != nil {
			r.Infra("subscribe: %v", err)
			return
		}
	}
	connectedFromStart := r.Choose(2) == 0
	if connectedFromStart {
		s.connectAll()
	}
	nmsgs := 1 + r.Choose(8)
	if controlled {
		nmsgs = 1 + r.Choose(3)
	}
	r.Logf("pipeline: devices=%d same_account(d0,d1)=%v messages=%d connected_from_start=%v eagerdag=%v controlled=%v drop=%d/64 dup=%d/64 window=%d", ndev, sameAccount, nmsgs, connectedFromStart, s.w.EagerDag, controlled, s.dropRate, s.dupRate, window)
	if window < 100 {
		r.Fault("small_key_window")
	}

	if controlled {
		// every goroutine started so far (store listeners, pipeline loops) runs to its first real wait before the
		// scheduler takes over: otherwise whether it meets the scheduler at its very first point is a real-time race
		s.wait()
		sc = sched.New(r.Choose, r.Choose(3), func(f string, a ...any) { r.Logf(f, a...); r.Step() })
	}
	// run lets the system react: in the controlled tier the scheduler releases pipeline goroutines one at a
	// time (seeded), interleaved with network deliveries; otherwise reactions run to quiescence by themselves.
	react := func(budget int) {
		if sc == nil {
			s.wait()
			return
		}
		for k := 0; k < budget && sc.Step(); k++ {
		}
	}
	netOrStep := func(faults bool) bool {
		if sc != nil && s.r.Choose(3) != 0 {
			if sc.Step() {
				return true
			}
		}
		if s.netStep(faults) {
			return true
		}
		if sc != nil {
			return sc.Step()
		}
		return false
	}

	activated := make([]bool, ndev)
	activate := func(i int) {
		if activated[i] {
			return
		}
		activated[i] = true
		gc := s.nodes[i].gcs[gid]
		f := func() {
			if err := gc.ActivateGroupContext(nil); err != nil {
				r.Logf("activation of d%d failed: %v", i, err != nil)
			}
		}
		if sc != nil {
			sc.Go(fmt.Sprintf("activate-d%d", i), f)
		} else {
			go f()
		}
		r.Logf("activate d%d", i)
	}
	var msgs []*c08msg
	send := func(i int) {
		gc := s.nodes[i].gcs[gid]
		payload := fmt.Sprintf("d%d-m%d", i, len(msgs))
		m := &c08msg{sender: i, payload: payload, mustReach: map[int]bool{}}
		idx := gc.MetadataStore().Index().(*metadataStoreIndex)
		for d := range s.nodes {
			if d == i {
				continue
			}
			sent, _ := idx.areSecretsAlreadySent(s.nodes[d].gcs[gid].MemberPubKey())
			m.mustReach[d] = sent
		}
		done := make(chan string, 1)
		f := func() {
			op, err := gc.MessageStore().AddMessage(ctx, []byte(payload))
			if err != nil {
				done <- ""
				return
			}
			done <- op.GetEntry().GetHash().String()
		}
		if sc != nil {
			sc.Go(fmt.Sprintf("send-d%d", i), f)
			for k := 0; k < 4000; k++ {
				select {
				case m.cid = <-done:
					k = 4000
				default:
					if !sc.Step() {
						s.wait()
					}
				}
			}
		} else {
			f()
			m.cid = <-done
		}
		if m.cid == "" {
			r.Infra("AddMessage failed or did not finish")
			return
		}
		msgs = append(msgs, m)
		r.Logf("send %s (must reach %v)", payload, m.mustReach)
	}

	// the history: activations and sends at drawn points, network steps in between
	events := ndev + nmsgs
	sent := 0
	for e := 0; e < events*3 && !r.Failed(); e++ {
		for k := s.r.Choose(10); k > 0; k-- {
			if !netOrStep(true) {
				break
			}
		}
		switch c := s.r.Choose(3); {
		case c == 0:
			i := s.r.Choose(ndev)
			react(200)
			activate(i)
		case c == 1 && sent < nmsgs:
			i := s.r.Choose(ndev)
			if !activated[i] {
				activate(i)
				react(400)
			}
			react(50)
			send(i)
			sent++
		case !connectedFromStart && s.r.Choose(4) == 0:
			s.connectAll()
			connectedFromStart = true
			r.Fault("late_connect")
			r.Logf("connect all")
		}
	}
	if r.Failed() {
		return
	}
	for i := range s.nodes {
		activate(i)
	}
	// quiesce: heal, deliver everything, anti-entropy until no log grows; pipeline goroutines run until nothing is enabled
	s.connectAll()
	prev := ""
	for round := 0; round < 60; round++ {
		for k := 0; k < 20000; k++ {
			if !netOrStep(false) {
				break
			}
		}
		if sc != nil {
			for sc.Step() {
			}
		}
		s.wait()
		var sb strings.Builder
		for _, n := range s.nodes {
			fmt.Fprintf(&sb, "%d/%d;", n.gcs[gid].MetadataStore().OpLog().Len(), n.gcs[gid].MessageStore().OpLog().Len())
		}
		if sb.String() == prev {
			break
		}
		prev = sb.String()
		for i := range s.nodes {
			for j := i + 1; j < len(s.nodes); j++ {
				s.w.Rejoin(i, j)
			}
		}
		time.Sleep(time.Second)
		r.SimTime(time.Second)
	}
	s.wait()
	if s.delivered > 0 {
		r.Nontrivial()
	}
	// ---- observations at quiescence
	delivered := make([]map[string]int, ndev)
	payloads := make([]map[string]string, ndev)
	for i := range s.nodes {
		delivered[i], payloads[i] = map[string]int{}, map[string]string{}
	drain:
		for {
			select {
			case e := <-subs[i].Out():
				ev := e.(*protocoltypes.GroupMessageEvent)
				c, _ := cid.Cast(ev.EventContext.Id)
				delivered[i][c.String()]++
				payloads[i][c.String()] = string(ev.Message)
			default:
				break drain
			}
		}
	}
	// C05 (b): every device holds the chain key of every other announced device
	gpk, _ := g.GetPubKey()
	for i, n := range s.nodes {
		if n.gcs[gid].MetadataStore().OpLog().Len() != s.nodes[0].gcs[gid].MetadataStore().OpLog().Len() {
			r.Violate("fixpoint", "metadata-not-converged", "metadata logs did not converge at the fixpoint")
			return
		}
		for j, o := range s.nodes {
			if i == j {
				continue
			}
			if !n.ss.IsChainKeyKnownForDevice(ctx, gpk, o.gcs[gid].DevicePubKey()) {
				r.Violate("chainkeys", "chain-key-not-distributed", "all metadata entries have been exchanged (%d entries everywhere) but d%d does not hold the chain key of d%d", n.gcs[gid].MetadataStore().OpLog().Len(), i, j)
				return
			}
		}
	}
	r.Probe("chain_keys_everywhere")
	// C08: delivery and nothing parked
	for _, m := range msgs {
		for d := range s.nodes {
			cnt := delivered[d][m.cid]
			if cnt > 1 {
				r.Violate("delivery", "delivered-more-than-once", "message %q delivered %d times on d%d", m.payload, cnt, d)
				return
			}
			if cnt == 1 && payloads[d][m.cid] != m.payload {
				r.Violate("delivery", "wrong-payload", "message %q delivered as %q on d%d", m.payload, payloads[d][m.cid], d)
				return
			}
			if (d == m.sender || m.mustReach[d]) && cnt == 0 {
				ms := s.nodes[d].gcs[gid].MessageStore()
				sdev, _ := s.nodes[m.sender].gcs[gid].DevicePubKey().Raw()
				parked, _ := ms.CacheSizeForDevicePK(sdev)
				r.Violate("delivery", "decryptable-message-not-delivered", "message %q of d%d was sealed after its chain-key announcement to d%d's member, all entries and announcements have arrived, every task is idle, yet d%d never delivered it (log holds it: %v; %d message(s) of that sender parked in the device cache, %d in the main queue)",
					m.payload, m.sender, d, d, hasCID(logCIDs(s.nodes[d].gcs[gid], false), m.cid), parked, ms.messagesQueue.VerifLen())
				return
			}
		}
	}
	for d, n := range s.nodes {
		if q := n.gcs[gid].MessageStore().messagesQueue.VerifLen(); q != 0 {
			r.Violate("parked", "main-queue-not-empty", "at quiescence the message queue of d%d still holds %d message(s)", d, q)
			return
		}
	}
	if len(msgs) > 0 {
		r.Probe("messages_checked")
	}
	for _, m := range msgs {
		for d, must := range m.mustReach {
			if !must && d != m.sender {
				r.Probe("message_sealed_before_announcement")
			}
		}
	}
	if sc != nil && sc.Preemptions > 0 {
		r.Fault("preemption")
	}
	_ = sort.Strings
}

func hasCID(xs []string, c string) bool {
	for _, x := range xs {
		if x == c {
			return true
		}
	}
	return false
}
