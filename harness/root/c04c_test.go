//go:build verif

package weshnet

import (
	"context"
	"fmt"
	"testing"

	"github.com/libp2p/go-libp2p/core/crypto"

	"berty.tech/weshnet/v2/internal/verifsim/kernel"
	"berty.tech/weshnet/v2/internal/verifsim/sched"
	"berty.tech/weshnet/v2/pkg/protocoltypes"
)

// C04, controlled interleavings: "re-indexing the same log any number of times does not change the state" and
// "the state is a function of the entries" when index passes OVERLAP on one device. Two or three tasks write
// metadata operations to one account group at the same time; each write makes the store index the whole log
// (go-orbit-db calls UpdateIndex after every append, without serialising the calls). The goroutines are
// released one at a time by the seeded scheduler at every lock operation of store_metadata_index.go. At
// quiescence the state must equal the state after one more indexing of the same log.

func TestVerifC04C(t *testing.T) {
	kernel.InstallCrypto(t)
	kernel.Component("MetadataStore operations, metadata index (instrumented: scheduling points at its lock operations), go-orbit-db base store, go-ipfs-log, secret store", "real")
	kernel.Component("goroutine schedule", "simulated (cooperative scheduler, seeded)")
	kernel.Check(t, "C04", func(r *kernel.Run) {
		seed := r.Uint64("cryptoseed")
		r.Words(1500)
		res := sched.Bubble(t, func() { c04crun(r, seed) })
		if res != "" && !r.Failed() {
			r.Infra("bubble panicked: %s", res)
		}
	})
}

func c04crun(r *kernel.Run, seed uint64) {
	ctx := context.Background()
	kernel.SeedCrypto(seed)
	sched.Deactivate()
	s := newVSim(r)
	var sc *sched.S
	defer func() {
		if sc != nil {
			for _, n := range s.nodes {
				n.cancel()
			}
			sc.Abort()
		}
		s.shutdown()
	}()
	n, err := s.addNode("d0", 4)
	if err != nil {
		r.Infra("node: %v", err)
		return
	}
	g, _, err := n.ss.GetGroupForAccount()
	if err != nil {
		r.Infra("account group: %v", err)
		return
	}
	gc, err := n.openGroup(g)
	if err != nil {
		r.Infra("open: %v", err)
		return
	}
	m := gc.MetadataStore()
	contacts := make([]*c04contact, 3)
	for i := range contacts {
		_, pk, _ := crypto.GenerateEd25519Key(nil)
		raw, _ := pk.Raw()
		contacts[i] = &c04contact{pk: pk, raw: raw, seed: kernel.DetBytes(uint64(i)+77, 32), meta: []byte(fmt.Sprintf("meta-%d", i))}
	}
	mm := make([]*protocoltypes.Group, 3)
	for i := range mm {
		mm[i], _, _ = protocoltypes.NewGroupMultiMember()
	}
	// a common prefix written sequentially
	for k := r.Choose(3); k > 0; k-- {
		_, _ = m.ContactRequestOutgoingEnqueue(ctx, &protocoltypes.ShareableContact{Pk: contacts[0].raw, PublicRendezvousSeed: contacts[0].seed, Metadata: contacts[0].meta}, []byte("own"))
	}
	s.wait()
	ntasks := 2 + r.Choose(2)
	type plan struct{ kinds []int }
	plans := make([]plan, ntasks)
	for i := range plans {
		for k := 1 + r.Choose(2); k > 0; k-- {
			plans[i].kinds = append(plans[i].kinds, r.Choose(5))
		}
	}
	r.Logf("overlapping index passes: %d writer tasks, plans %v", ntasks, plans)
	sc = sched.New(r.Choose, r.Choose(3), func(f string, a ...any) { r.Logf(f, a...); r.Step() })
	done := make([]bool, ntasks)
	for i := range plans {
		i := i
		sc.Go(fmt.Sprintf("writer-%d", i), func() {
			for _, k := range plans[i].kinds {
				c := contacts[i%len(contacts)]
				switch k {
				case 0:
					_, _ = m.ContactRequestOutgoingEnqueue(ctx, &protocoltypes.ShareableContact{Pk: c.raw, PublicRendezvousSeed: c.seed, Metadata: c.meta}, []byte(fmt.Sprintf("own-%d", i)))
				case 1:
					_, _ = m.ContactBlock(ctx, c.pk)
				case 2:
					_, _ = m.GroupJoin(ctx, mm[i%len(mm)])
				case 3:
					_, _ = m.ContactRequestEnable(ctx)
				default:
					_, _ = m.ContactRequestReferenceReset(ctx)
				}
			}
			done[i] = true
		})
	}
	for k := 0; k < 20000 && sc.Step(); k++ {
	}
	s.wait()
	for i, d := range done {
		if !d {
			st := sc.Status()
			r.Violate("stuck", "task-stuck", "writer %d never finished its operations (scheduler status: %+v)", i, st)
			return
		}
	}
	if sc.Preemptions > 0 {
		r.Fault("preemption")
		r.Nontrivial()
	}
	// all writers returned: the index must reflect the whole log, i.e. one more pass over the same log changes nothing
	before := metaDigest(m)
	entries := m.OpLog().Len()
	sched.Deactivate()
	sc = nil
	if err := m.Index().UpdateIndex(m.OpLog(), nil); err != nil {
		r.Infra("reindex: %v", err)
		return
	}
	after := metaDigest(m)
	r.State(shortHash(after))
	if before != after {
		r.Violate("reindex", "state-changed-by-reindex", "after %d concurrent writers returned, the state reported for the %d entries of the log changes when the same log is indexed once more:\n  before: %s\n  after:  %s", ntasks, entries, before, after)
		return
	}
	r.Probe("overlapping_index_passes_checked")
}
