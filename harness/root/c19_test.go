//go:build verif

package weshnet

import (
	"archive/tar"
	"bytes"
	"context"
	"fmt"
	"reflect"
	"sort"
	"strings"
	"testing"
	"time"

	"github.com/libp2p/go-libp2p/core/crypto"
	"go.uber.org/zap"
	"google.golang.org/grpc/metadata"
	"google.golang.org/protobuf/proto"
	"google.golang.org/protobuf/reflect/protoreflect"

	"berty.tech/weshnet/v2/internal/verifsim/kernel"
	"berty.tech/weshnet/v2/pkg/cryptoutil"
	"berty.tech/weshnet/v2/pkg/protocoltypes"
)

// C19: no request can crash the service. A real service (the repository's own TestingService on an
// in-memory mocknet: real goroutines, no traffic) receives seeded sequences of ALL methods of the
// protocol service interface, found by reflection, with requests built from edge-case field values
// (nil sub-messages, empty, short, oversized, well-formed keys of every kind known to the session,
// structurally random bytes), interleaved with deactivation/reactivation of the account group and
// other groups; the exported decode/decrypt helpers get random bytes. Oracle: every call returns.
// This check is NOT under scheduler control (libp2p mocknet and the service's own goroutines are
// real); its histories are seeded and a panic on malformed input is a deterministic function of the
// request history.

type c19stream struct {
	ctx context.Context
	n   int
}

func (s *c19stream) SetHeader(metadata.MD) error  { return nil }
func (s *c19stream) SendHeader(metadata.MD) error { return nil }
func (s *c19stream) SetTrailer(metadata.MD)       {}
func (s *c19stream) Context() context.Context     { return s.ctx }
func (s *c19stream) SendMsg(m any) error          { s.n++; return nil }
func (s *c19stream) RecvMsg(m any) error          { return fmt.Errorf("not a client stream") }

type c19typed[T any] struct{ *c19stream }

func (s c19typed[T]) Send(m *T) error { s.n++; return nil }

// methods that need an external network service or are deliberately process-level
var c19skip = map[string]string{
	"CredentialVerificationServiceInitFlow":     "needs an external HTTP credential issuer",
	"CredentialVerificationServiceCompleteFlow": "needs an external HTTP credential issuer",
}

func c19streamFor(t reflect.Type, st *c19stream) (reflect.Value, bool) {
	// t is grpc.ServerStreamingServer[X]: build c19typed[X] by matching the known reply types
	cands := []any{
		c19typed[protocoltypes.ServiceExportData_Reply]{st}, c19typed[protocoltypes.GroupMetadataEvent]{st}, c19typed[protocoltypes.GroupMessageEvent]{st},
		c19typed[protocoltypes.GroupDeviceStatus_Reply]{st}, c19typed[protocoltypes.DebugListGroups_Reply]{st}, c19typed[protocoltypes.DebugInspectGroupStore_Reply]{st},
		c19typed[protocoltypes.VerifiedCredentialsList_Reply]{st},
	}
	for _, c := range cands {
		if reflect.TypeOf(c).AssignableTo(t) || reflect.TypeOf(c).Implements(t) {
			return reflect.ValueOf(c), true
		}
	}
	return reflect.Value{}, false
}

type c19pool struct {
	r     *kernel.Run
	bytes [][]byte
	names []string
}

func (p *c19pool) add(name string, b []byte) {
	for i, n := range p.names {
		if n == name { // one value per name: the latest (names, not values, make the trace)
			p.bytes[i] = b
			return
		}
	}
	p.bytes = append(p.bytes, b)
	p.names = append(p.names, name)
}

// harvest adds the byte fields of a reply to the pool (bounded), so that later requests can refer to what the
// service handed out: group keys, CIDs, device keys.
func (p *c19pool) harvest(method string, m protoreflect.Message, depth int) {
	if len(p.names) > 40 || depth > 2 {
		return
	}
	fields := m.Descriptor().Fields()
	for i := 0; i < fields.Len(); i++ {
		fd := fields.Get(i)
		if fd.IsList() || fd.IsMap() || !m.Has(fd) {
			continue
		}
		switch fd.Kind() {
		case protoreflect.BytesKind:
			if b := m.Get(fd).Bytes(); len(b) > 0 && len(b) <= 128 {
				p.add("reply:"+method+"."+string(fd.Name()), append([]byte(nil), b...))
			}
		case protoreflect.MessageKind:
			p.harvest(method+"."+string(fd.Name()), m.Get(fd).Message(), depth+1)
		}
	}
}

// c19archive builds an export archive out of edge cases: known and unknown member names, bodies that are keys,
// garbage or empty, and headers that announce more than follows (up to an absurd size).
func c19archive(p *c19pool) ([]byte, string) {
	var buf bytes.Buffer
	var desc strings.Builder
	tw := tar.NewWriter(&buf)
	n := 1 + p.r.Pick("members", 3)
	for i := 0; i < n; i++ {
		name := []string{exportAccountKeyFilename, exportAccountProofKeyFilename, "entries/bafyreigdmqpykrgxyaxtlafqpqhzrb7qy2rh75nldvfd4tucqmqqme5yje", "heads/x", "unknown", ""}[p.r.Pick("name", 6)]
		body, bn := p.pick()
		size := int64(len(body))
		kind := p.r.Pick("size", 4)
		switch kind {
		case 1:
			size = int64(len(body)) + 1 // one byte short
		case 2:
			// absurd announced size. (Sizes that a careless make() could attempt, like 1<<40, are not used: the
			// allocation failure would be a fatal runtime error that kills the worker without a replayable witness.)
			size = 1 << 62
		}
		fmt.Fprintf(&desc, "%s[%s,size-kind %d] ", name, bn, kind)
		if err := tw.WriteHeader(&tar.Header{Name: name, Mode: 0o600, Size: size, Format: tar.FormatGNU}); err != nil {
			continue
		}
		if size == int64(len(body)) {
			_, _ = tw.Write(body)
		} else {
			// the header is already in the buffer; the body that follows is shorter than announced
			_ = tw.Flush()
			buf.Write(body)
			return buf.Bytes(), desc.String()
		}
	}
	_ = tw.Close()
	return buf.Bytes(), desc.String()
}

func (p *c19pool) pick() ([]byte, string) {
	i := p.r.Pick("bytes", len(p.bytes))
	return p.bytes[i], p.names[i]
}

// c19fill sets every field of a request from the pool of edge values.
func c19fill(p *c19pool, m protoreflect.Message, depth int, desc *strings.Builder) {
	fields := m.Descriptor().Fields()
	for i := 0; i < fields.Len(); i++ {
		fd := fields.Get(i)
		if fd.IsList() || fd.IsMap() {
			continue
		}
		switch fd.Kind() {
		case protoreflect.BytesKind:
			b, n := p.pick()
			if fd.Name() == "group_pk" || fd.Name() == "group_public_key" {
				// half of the time a group the session made the service know (joined, possibly never opened or closed again)
				var known []int
				for i, nm := range p.names {
					if nm == "joined-group-pk" || nm == "contact-group-pk" || nm == "account-group-pk" {
						known = append(known, i)
					}
				}
				if len(known) > 0 && p.r.Pick("known_group", 2) == 0 {
					k := known[p.r.Pick("which_group", len(known))]
					b, n = p.bytes[k], p.names[k]
				}
			}
			fmt.Fprintf(desc, "%s=%s ", fd.Name(), n)
			if b != nil {
				m.Set(fd, protoreflect.ValueOfBytes(b))
			}
		case protoreflect.StringKind:
			s := []string{"", "x", "http://127.0.0.1:1", "localhost:1", strings.Repeat("A", 300)}[p.r.Pick("str", 5)]
			m.Set(fd, protoreflect.ValueOfString(s))
		case protoreflect.BoolKind:
			m.Set(fd, protoreflect.ValueOfBool(p.r.Bool("bool")))
		case protoreflect.EnumKind:
			m.Set(fd, protoreflect.ValueOfEnum(protoreflect.EnumNumber(p.r.Pick("enum", 6))))
		case protoreflect.Int32Kind, protoreflect.Sint32Kind, protoreflect.Sfixed32Kind:
			m.Set(fd, protoreflect.ValueOfInt32(int32([]int{0, 1, -1, 1 << 30}[p.r.Pick("int", 4)])))
		case protoreflect.Int64Kind, protoreflect.Sint64Kind, protoreflect.Sfixed64Kind:
			m.Set(fd, protoreflect.ValueOfInt64(int64([]int{0, 1, -1, 1 << 40}[p.r.Pick("int", 4)])))
		case protoreflect.Uint32Kind, protoreflect.Fixed32Kind:
			m.Set(fd, protoreflect.ValueOfUint32(uint32([]int{0, 1, 1 << 31}[p.r.Pick("uint", 3)])))
		case protoreflect.Uint64Kind, protoreflect.Fixed64Kind:
			m.Set(fd, protoreflect.ValueOfUint64(uint64([]int{0, 1, 1 << 40}[p.r.Pick("uint", 3)])))
		case protoreflect.MessageKind:
			if depth < 2 && p.r.Pick("submsg", 3) != 0 { // 1/3: nil sub-message
				sub := m.NewField(fd).Message()
				fmt.Fprintf(desc, "%s{ ", fd.Name())
				c19fill(p, sub, depth+1, desc)
				desc.WriteString("} ")
				m.Set(fd, protoreflect.ValueOfMessage(sub))
			} else {
				fmt.Fprintf(desc, "%s=nil ", fd.Name())
			}
		}
	}
}

func TestVerifC19(t *testing.T) {
	kernel.Component("protocol service (all RPC methods, called in process), its group contexts, stores, secret store", "real")
	kernel.Component("IPFS node and libp2p host", "real code on libp2p's in-memory mocknet (real goroutines, not scheduler-controlled)")
	kernel.Component("requests", "simulated (seeded edge-case generator over every field of every request type)")
	kernel.Check(t, "C19", func(r *kernel.Run) { c19run(t, r) })
}

func c19call(r *kernel.Run, what string, f func()) (panicked bool) {
	done := make(chan any, 1)
	go func() {
		defer func() { done <- recover() }()
		f()
	}()
	select {
	case p := <-done:
		if p != nil {
			sig := strings.Fields(what)[0]
			if i := strings.IndexByte(sig, '('); i > 0 {
				sig = sig[:i]
			}
			r.Violate("panic", "request-panics/"+sig, "%s panicked: %v", what, p)
			return true
		}
	case <-time.After(20 * time.Second):
		r.Probe("call_still_running_after_20s")
	}
	return false
}

func c19run(t *testing.T, r *kernel.Run) {
	ctx, cancel := context.WithCancel(context.Background())
	defer cancel()
	svcI, cleanup := TestingService(ctx, t, Opts{Logger: zap.NewNop()})
	defer cleanup()
	svc := svcI.(*service)
	pool := &c19pool{r: r}
	pool.add("nil", nil)
	pool.add("empty", []byte{})
	pool.add("1byte", []byte{7})
	pool.add("31bytes", kernel.DetBytes(1, 31))
	pool.add("32random", kernel.DetBytes(2, 32))
	pool.add("33bytes", kernel.DetBytes(3, 33))
	pool.add("4096bytes", kernel.DetBytes(4, 4096))
	_, other, _ := crypto.GenerateEd25519Key(nil)
	otherRaw, _ := other.Raw()
	pool.add("valid-unknown-ed25519-key", otherRaw)
	var accountGroupPK []byte
	if ag := svc.getAccountGroup(); ag != nil {
		accountGroupPK = ag.Group().PublicKey
		pool.add("account-group-pk", ag.Group().PublicKey)
		mk, _ := ag.MemberPubKey().Raw()
		pool.add("own-account-pk", mk)
		dk, _ := ag.DevicePubKey().Raw()
		pool.add("own-device-pk", dk)
	}
	mm, _, _ := NewGroupMultiMember()
	pool.add("unjoined-group-pk", mm.PublicKey)
	mmb, _ := proto.Marshal(mm)
	pool.add("marshalled-group", mmb)
	sc, _ := proto.Marshal(&protocoltypes.ShareableContact{Pk: otherRaw, PublicRendezvousSeed: kernel.DetBytes(9, 32)})
	pool.add("marshalled-contact", sc)
	pool.add("proto-garbage", []byte{0x0a, 0xff, 0xff, 0xff, 0xff, 0x0f, 0x01})

	// the method table, by reflection over the service interface
	st := reflect.TypeOf((*protocoltypes.ProtocolServiceServer)(nil)).Elem()
	var methods []string
	for i := 0; i < st.NumMethod(); i++ {
		n := st.Method(i).Name
		if strings.HasPrefix(n, "mustEmbed") {
			continue
		}
		if _, skip := c19skip[n]; skip {
			continue
		}
		methods = append(methods, n)
	}
	sort.Strings(methods)
	sv := reflect.ValueOf(svc)
	nreq := r.Int("requests", 1, 25)
	r.Logf("service session: %d requests over %d methods", nreq, len(methods))
	joined, contactGroup := false, false
	rich := r.Pick("rich", 4) // bit 0: the session starts by joining a multi-member group, bit 1: by creating a contact group
	var last func() bool      // the previous request, to be repeated
	for i := 0; i < nreq && !r.Failed(); i++ {
		a := r.Pick("kind", 16)
		if i == 0 && rich&1 != 0 {
			a = 8
		} else if i <= 1 && rich&2 != 0 && !contactGroup {
			a = 11
		} else if a >= 14 {
			a = 10 // state changes are three times as likely as any other special step
		} else if a == 7 && last != nil {
			a = 13 // ... and repeating the previous request twice as likely
		}
		switch {
		case a == 13 && last != nil: // the same request again (a refused request must not leave anything behind that breaks the next one)
			r.Logf("repeat the previous request")
			r.Fault("repeated_request")
			if last() {
				return
			}
			continue
		case a == 12: // an export archive built from edge cases
			arch, d := c19archive(pool)
			r.Logf("RestoreAccountExport on archive %s", d)
			r.Fault("crafted_archive")
			if c19call(r, "RestoreAccountExport(archive "+d+")", func() {
				_ = RestoreAccountExport(ctx, bytes.NewReader(arch), svc.ipfsCoreAPI, svc.odb, zap.NewNop())
			}) {
				return
			}
			continue
		case a == 11 && !contactGroup: // make the session richer: a contact group known to the service
			contactGroup = true
			r.Logf("create a contact group")
			if c19call(r, "contact group setup", func() {
				_, _ = svc.ContactRequestSend(ctx, &protocoltypes.ContactRequestSend_Request{Contact: &protocoltypes.ShareableContact{Pk: otherRaw, PublicRendezvousSeed: kernel.DetBytes(9, 32)}})
				if info, err := svc.GroupInfo(ctx, &protocoltypes.GroupInfo_Request{ContactPk: otherRaw}); err == nil && info.Group != nil {
					pool.add("contact-group-pk", info.Group.PublicKey)
					_, _ = svc.ActivateGroup(ctx, &protocoltypes.ActivateGroup_Request{GroupPk: info.Group.PublicKey, LocalOnly: true})
				}
			}) {
				return
			}
			continue
		case a == 9: // helpers exposed to applications for untrusted bytes
			b, n := pool.pick()
			key, kn := pool.pick()
			r.Logf("helpers on %s / key %s", n, kn)
			if c19call(r, "cryptoutil.AESGCMDecrypt("+kn+","+n+")", func() { _, _ = cryptoutil.AESGCMDecrypt(key, b) }) {
				return
			}
			if c19call(r, "RestoreAccountExport("+n+")", func() {
				_ = RestoreAccountExport(ctx, bytes.NewReader(b), svc.ipfsCoreAPI, svc.odb, zap.NewNop())
			}) {
				return
			}
			if c19call(r, "secretStore.OpenOutOfStoreMessage("+n+")", func() { _, _, _, _, _ = svc.secretStore.OpenOutOfStoreMessage(ctx, b) }) {
				return
			}
			if c19call(r, "ShareableContact.CheckFormat("+n+")", func() {
				c := &protocoltypes.ShareableContact{}
				_ = proto.Unmarshal(b, c)
				_ = c.CheckFormat()
				_, _ = c.GetPubKey()
			}) {
				return
			}
			continue
		case a == 10: // change the service state: deactivate / reactivate a group (account group included)
			var gpk []byte
			name := "account-group"
			var known []int // groups this session made the service know
			for i, n := range pool.names {
				if n == "joined-group-pk" || n == "contact-group-pk" {
					known = append(known, i)
				}
			}
			switch t := r.Pick("target", 4); {
			case t <= 1 && accountGroupPK != nil:
				gpk = accountGroupPK
			case t == 2 && len(known) > 0:
				k := known[r.Pick("known", len(known))]
				gpk, name = pool.bytes[k], pool.names[k]
			default:
				gpk, name = pool.pick()
			}
			if r.Bool("deactivate") {
				r.Fault("deactivate_group")
				r.Logf("DeactivateGroup(%s)", name)
				if c19call(r, "DeactivateGroup "+name, func() {
					_, _ = svc.DeactivateGroup(ctx, &protocoltypes.DeactivateGroup_Request{GroupPk: gpk})
				}) {
					return
				}
			} else {
				r.Fault("activate_group")
				r.Logf("ActivateGroup(%s)", name)
				if c19call(r, "ActivateGroup "+name, func() {
					_, _ = svc.ActivateGroup(ctx, &protocoltypes.ActivateGroup_Request{GroupPk: gpk, LocalOnly: true})
				}) {
					return
				}
			}
			continue
		case a == 8 && !joined: // make the session richer: join and activate a real multi-member group
			joined = true
			r.Logf("join a multi-member group")
			// the invitation is valid (identifier, secret, signature, type); its fields that no signature covers may
			// hold anything; and a joined group is not necessarily opened
			jg := proto.Clone(mm).(*protocoltypes.Group)
			variant := r.Pick("join_variant", 5)
			switch variant {
			case 1:
				jg.LinkKey, _ = pool.pick()
			case 2:
				jg.LinkKeySig, _ = pool.pick()
			case 3:
				jg.SignPub, _ = pool.pick()
			}
			open := r.Bool("open_after_join")
			r.Logf("join variant %d, open=%v", variant, open)
			if c19call(r, fmt.Sprintf("MultiMemberGroupJoin valid (variant %d) then ActivateGroup=%v", variant, open), func() {
				_, _ = svc.MultiMemberGroupJoin(ctx, &protocoltypes.MultiMemberGroupJoin_Request{Group: jg})
				if open {
					_, _ = svc.ActivateGroup(ctx, &protocoltypes.ActivateGroup_Request{GroupPk: mm.PublicKey, LocalOnly: true})
				}
			}) {
				return
			}
			pool.add("joined-group-pk", mm.PublicKey)
			continue
		}
		name := methods[r.Pick("method", len(methods))]
		mv := sv.MethodByName(name)
		mt := mv.Type()
		var desc strings.Builder
		if mt.NumIn() == 2 && mt.In(0).Implements(reflect.TypeOf((*context.Context)(nil)).Elem()) {
			req := reflect.New(mt.In(1).Elem())
			c19fill(pool, req.Interface().(proto.Message).ProtoReflect(), 0, &desc)
			r.Logf("%s %s", name, desc.String())
			what := name + " " + desc.String()
			last = func() bool {
				r.Step()
				cctx, ccancel := context.WithTimeout(ctx, 300*time.Millisecond)
				defer ccancel()
				var out []reflect.Value
				if c19call(r, what, func() { out = mv.Call([]reflect.Value{reflect.ValueOf(cctx), req}) }) {
					return true
				}
				if len(out) == 2 && !out[0].IsNil() && out[1].IsNil() {
					if pm, ok := out[0].Interface().(proto.Message); ok {
						pool.harvest(name, pm.ProtoReflect(), 0)
					}
				}
				return false
			}
			if last() {
				return
			}
		} else if mt.NumIn() == 2 {
			req := reflect.New(mt.In(0).Elem())
			c19fill(pool, req.Interface().(proto.Message).ProtoReflect(), 0, &desc)
			cctx, ccancel := context.WithTimeout(ctx, 150*time.Millisecond)
			stream, ok := c19streamFor(mt.In(1), &c19stream{ctx: cctx})
			if !ok {
				ccancel()
				r.Infra("no fake stream for %s", name)
				return
			}
			r.Logf("%s (stream) %s", name, desc.String())
			r.Step()
			p := c19call(r, name+" "+desc.String(), func() { mv.Call([]reflect.Value{req, stream}) })
			ccancel()
			if p {
				return
			}
		}
	}
	if r.Failed() {
		return
	}
	// the process is alive: a well-formed request is still answered (with a value, or with an error if the session
	// left the service in a state where it does not apply, e.g. the account group deactivated)
	if c19call(r, "ServiceGetConfiguration", func() {
		_, _ = svc.ServiceGetConfiguration(ctx, &protocoltypes.ServiceGetConfiguration_Request{})
	}) {
		return
	}
	r.Probe("session_survived")
	r.Nontrivial()
}
