//go:build verif

package weshnet

import (
	"bytes"
	"context"
	"fmt"
	"sort"
	"strings"
	"testing"

	"github.com/libp2p/go-libp2p/core/crypto"

	"berty.tech/weshnet/v2/internal/verifsim/kernel"
	"berty.tech/weshnet/v2/internal/verifsim/sched"
	"berty.tech/weshnet/v2/pkg/protocoltypes"
)

// C07: contacts follow the documented lifecycle (DESIGN.md appendix A). A writer device performs
// seeded sequences of the seven contact operations (and malformed variants) on 1-2 contacts; the
// reference table predicts refusal / the appended event for every operation; reported state, seed,
// metadata and own metadata are compared with the reference fold on the writer after every
// operation, after reopening the group, and on a second device that replays the log under
// simulator-chosen delivery plans.

type c07state = protocoltypes.ContactState

const (
	c07Undef     = protocoltypes.ContactState_ContactStateUndefined
	c07ToRequest = protocoltypes.ContactState_ContactStateToRequest
	c07Received  = protocoltypes.ContactState_ContactStateReceived
	c07Added     = protocoltypes.ContactState_ContactStateAdded
	c07Removed   = protocoltypes.ContactState_ContactStateRemoved
	c07Discarded = protocoltypes.ContactState_ContactStateDiscarded
	c07Blocked   = protocoltypes.ContactState_ContactStateBlocked
)

// c07table is appendix A: operation x current state -> appended event kind ("" = refused).
var c07table = map[string]map[c07state]string{
	"enq":     {c07Undef: "enq", c07ToRequest: "enq", c07Received: "sent", c07Removed: "sent", c07Discarded: "sent", c07Blocked: "enq"},
	"sent":    {c07ToRequest: "sent", c07Received: "sent", c07Removed: "sent", c07Discarded: "sent"},
	"recv":    {c07Undef: "recv", c07ToRequest: "sent", c07Removed: "recv", c07Discarded: "recv"},
	"discard": {c07Received: "discard"},
	"accept":  {c07Received: "accept"},
	"block":   {c07Undef: "block", c07ToRequest: "block", c07Received: "block", c07Added: "block", c07Removed: "block", c07Discarded: "block"},
	"unblock": {c07Blocked: "unblock"},
}

var c07eventState = map[string]c07state{
	"enq": c07ToRequest, "sent": c07Added, "recv": c07Received, "discard": c07Discarded, "accept": c07Added, "block": c07Blocked, "unblock": c07Removed,
}

func c07contactsOf(digest string) string {
	var parts []string
	for _, p := range strings.Split(digest, ";") {
		if strings.HasPrefix(p, "contact ") {
			parts = append(parts, p)
		}
	}
	return strings.Join(parts, ";")
}

// c07modelDigest folds the model's events (same rule as the C04 fold) into the contact part of the digest.
func c07modelDigest(events []c04event, contacts []*c04contact) string {
	return c07contactsOf(c04foldDigest(events, contacts, ""))
}

func c07modelState(events []c04event, ci int) c07state {
	for i := len(events) - 1; i >= 0; i-- {
		if events[i].contact == ci {
			return c07eventState[events[i].kind]
		}
	}
	return c07Undef
}

func TestVerifC07(t *testing.T) {
	kernel.InstallCrypto(t)
	kernel.Component("MetadataStore contact operations + metadata index", "real")
	kernel.Component("go-orbit-db base store + replicator, go-ipfs-log, secret store", "real")
	kernel.Component("pubsub, direct channel, DAG block exchange, clock", "simulated (SimNet/SimDag/synctest)")
	kernel.Check(t, "C07", func(r *kernel.Run) {
		seed := r.Uint64("cryptoseed")
		r.Words(1500)
		res := sched.Bubble(t, func() { c07run(r, seed) })
		if res != "" && !r.Failed() {
			r.Infra("bubble panicked: %s", res)
		}
	})
}

func c07run(r *kernel.Run, seed uint64) {
	ctx := context.Background()
	kernel.SeedCrypto(seed)
	s := newVSim(r)
	defer s.shutdown()
	s.w.EagerDag = r.Choose(2) == 0
	nops := 1 + r.Choose(6)
	if r.Choose(4) == 3 {
		nops = 7 + r.Choose(24)
	}
	ncontacts := 1 + r.Choose(2)
	for i := 0; i < 2; i++ {
		n, err := s.addNode(fmt.Sprintf("d%d", i), 4)
		if err != nil {
			r.Infra("node: %v", err)
			return
		}
		if i > 0 {
			if err := n.importAccountFrom(s.nodes[0]); err != nil {
				r.Infra("import: %v", err)
				return
			}
		}
	}
	g, amd, err := s.nodes[0].ss.GetGroupForAccount()
	if err != nil {
		r.Infra("account group: %v", err)
		return
	}
	ownPK := amd.Member()
	ownRaw, _ := ownPK.Raw()
	for _, n := range s.nodes {
		if _, err := n.openGroup(g); err != nil {
			r.Infra("open: %v", err)
			return
		}
	}
	gid := g.GroupIDAsString()
	writer, replica := s.nodes[0], s.nodes[1]
	connected := r.Choose(2) == 0 // replica online during the history, or joins afterwards (one batch)
	if connected {
		s.connectAll()
	}
	contacts := make([]*c04contact, ncontacts)
	for i := range contacts {
		_, pk, _ := crypto.GenerateEd25519Key(nil)
		raw, _ := pk.Raw()
		contacts[i] = &c04contact{pk: pk, raw: raw, seed: kernel.DetBytes(uint64(i)+7, 32), meta: []byte(fmt.Sprintf("meta-%d", i))}
	}
	r.Logf("contact lifecycle: ops=%d contacts=%d replica_online=%v eagerdag=%v", nops, ncontacts, connected, s.w.EagerDag)

	var events []c04event
	ops := []string{"enq", "sent", "recv", "discard", "accept", "block", "unblock"}

	checkWriter := func(n *vnode, where string) bool {
		m := n.gcs[gid].MetadataStore()
		want := c07modelDigest(events, contacts)
		got := c07contactsOf(metaDigest(m))
		r.State(shortHash(got))
		if got != want {
			r.Violate("lifecycle", "state-differs-from-reference", "%s on %s: contacts reported\n  %s\nreference lifecycle says\n  %s", where, n.name, got, want)
			return false
		}
		// every contact is in exactly one state: ListContactsByStatus partitions ListContacts
		total := 0
		for _, st := range []c07state{c07ToRequest, c07Received, c07Added, c07Removed, c07Discarded, c07Blocked, c07Undef} {
			total += len(m.ListContactsByStatus(st))
		}
		if total != len(m.ListContacts()) {
			r.Violate("lifecycle", "contact-in-several-states", "%s on %s: ListContactsByStatus over all states returns %d contacts, ListContacts %d", where, n.name, total, len(m.ListContacts()))
			return false
		}
		for ci, c := range contacts {
			if c07modelState(events, ci) == c07Undef {
				continue
			}
			cg, err := n.ss.GetGroupForContact(c.pk)
			if err != nil {
				r.Infra("contact group: %v", err)
				return false
			}
			sc := m.GetContactFromGroupPK(cg.PublicKey)
			if sc == nil || !bytes.Equal(sc.Pk, c.raw) {
				r.Violate("lifecycle", "contact-group-lookup", "%s on %s: GetContactFromGroupPK does not map the contact group of contact %d to its record", where, n.name, ci)
				return false
			}
			if rec := c04foldContacts(events)[ci]; rec != nil && (!bytes.Equal(sc.PublicRendezvousSeed, rec.seed) || !bytes.Equal(sc.Metadata, rec.meta)) {
				r.Violate("lifecycle", "contact-group-lookup-stale", "%s on %s: GetContactFromGroupPK returns seed %x / metadata %q for contact %d, the reference record has seed %x / metadata %q", where, n.name, sc.PublicRendezvousSeed, sc.Metadata, ci, rec.seed, rec.meta)
				return false
			}
		}
		return true
	}

	for op := 0; op < nops && !r.Failed(); op++ {
		if connected {
			for k := s.r.Choose(6); k > 0; k-- {
				if !s.netStep(true) {
					break
				}
			}
		}
		s.wait()
		m := writer.gcs[gid].MetadataStore()
		k := ops[s.r.Choose(len(ops))]
		ci := s.r.Choose(ncontacts)
		c := contacts[ci]
		variant := "ok"
		if s.r.Choose(5) == 4 {
			variant = []string{"seed-short", "seed-long", "seed-missing", "bad-key", "own-key"}[s.r.Choose(5)]
		}
		cur := c07modelState(events, ci)
		// inputs
		// every carrying event has its own seed and metadata (sometimes no metadata): backfill and overwrite are observable
		opSeed := kernel.DetBytes(uint64(op)*131+uint64(ci)+7, 32)
		opMeta := []byte(fmt.Sprintf("meta-%d-%d", ci, op))
		if s.r.Choose(4) == 3 {
			opMeta = nil
			r.Probe("carrying_event_without_metadata")
		}
		sc := &protocoltypes.ShareableContact{Pk: c.raw, PublicRendezvousSeed: opSeed, Metadata: opMeta}
		pk := c.pk
		refusedByInput := false
		switch variant {
		case "seed-short":
			sc.PublicRendezvousSeed = opSeed[:31]
			refusedByInput = k == "enq" || k == "recv"
		case "seed-long":
			sc.PublicRendezvousSeed = append(append([]byte{}, opSeed...), 1)
			refusedByInput = k == "enq" || k == "recv"
		case "seed-missing":
			sc.PublicRendezvousSeed = nil
			refusedByInput = k == "enq" // an incoming request may come without a seed
		case "bad-key":
			sc.Pk = c.raw[:31]
			refusedByInput = k == "enq" || k == "recv"
		case "own-key":
			sc.Pk = ownRaw
			pk = ownPK
			refusedByInput = true // an account can never request, receive or block itself; the others find no such contact
		}
		if variant != "ok" {
			r.Fault("malformed_" + variant)
		}
		wantKind := ""
		if !refusedByInput {
			wantKind = c07table[k][cur]
		}
		own := []byte(fmt.Sprintf("own-%d", op))
		before := m.OpLog().Len()
		var err error
		switch k {
		case "enq":
			_, err = m.ContactRequestOutgoingEnqueue(ctx, sc, own)
		case "sent":
			_, err = m.ContactRequestOutgoingSent(ctx, pk)
		case "recv":
			_, err = m.ContactRequestIncomingReceived(ctx, sc)
		case "discard":
			_, err = m.ContactRequestIncomingDiscard(ctx, pk)
		case "accept":
			_, err = m.ContactRequestIncomingAccept(ctx, pk)
		case "block":
			_, err = m.ContactBlock(ctx, pk)
		case "unblock":
			_, err = m.ContactUnblock(ctx, pk)
		}
		s.wait()
		after := m.OpLog().Len()
		r.Logf("op %s(%d,%s) in state %s -> err=%v appended=%d (reference: %q)", k, ci, variant, cur, err != nil, after-before, wantKind)
		r.Step()
		if wantKind == "" {
			r.Probe("refused_operation")
			if err == nil || after != before {
				r.Violate("lifecycle", "illegal-transition-accepted", "operation %s (%s) on a contact in state %s must be refused without appending anything: err=%v, %d entries appended", k, variant, cur, err, after-before)
				return
			}
		} else {
			if err != nil || after != before+1 {
				r.Violate("lifecycle", "legal-transition-refused", "operation %s on a contact in state %s must append one %q event: err=%v, %d entries appended", k, cur, wantKind, err, after-before)
				return
			}
			ev := c04event{kind: wantKind, contact: ci}
			switch wantKind {
			case "enq":
				ev.seed, ev.meta, ev.own = sc.PublicRendezvousSeed, sc.Metadata, own
			case "recv":
				ev.seed, ev.meta = sc.PublicRendezvousSeed, sc.Metadata
			}
			// the appended entry must be the event the reference names
			last := m.OpLog().Values().Slice()[after-1]
			dev, ok := c04decode(m, last, g, contacts)
			if !ok || dev.kind != wantKind || dev.contact != ci {
				r.Violate("lifecycle", "wrong-event-appended", "operation %s in state %s appended %q, the lifecycle requires %q", k, cur, dev.kind, wantKind)
				return
			}
			events = append(events, ev)
		}
		if !checkWriter(writer, fmt.Sprintf("after op %d (%s)", op, k)) {
			return
		}
		// reopen of the account group on the writer at drawn points
		if s.r.Choose(4) == 3 {
			writer.stop()
			s.w.Restart(writer.nn)
			s.wait()
			if err := writer.start(); err != nil {
				r.Infra("restart: %v", err)
				return
			}
			if _, err := writer.openGroup(g); err != nil {
				r.Infra("reopen: %v", err)
				return
			}
			s.wait()
			r.Fault("reopen")
			r.Logf("reopen writer")
			if writer.gcs[gid].MetadataStore().OpLog().Len() != len(events) {
				r.Probe("reopen_incomplete_log")
			} else if !checkWriter(writer, "after reopen") {
				return
			}
			if connected {
				s.w.Rejoin(0, 1)
			}
		}
	}
	if r.Failed() {
		return
	}
	// the replica replays the log (online with faults so far, or one batch now) until the fixpoint
	if !s.settle([]*protocoltypes.Group{g}) {
		r.Infra("no fixpoint")
		return
	}
	if s.delivered > 0 {
		r.Nontrivial()
	}
	if replica.gcs[gid].MetadataStore().OpLog().Len() != len(events) {
		r.Violate("replica", "replica-did-not-converge", "the replica holds %d of %d entries at the fixpoint", replica.gcs[gid].MetadataStore().OpLog().Len(), len(events))
		return
	}
	r.Probe("replica_checked")
	checkWriter(replica, "replica at the fixpoint")
	_ = sort.Strings
}
