//go:build verif

package weshnet

import (
	"bytes"
	"context"
	"fmt"
	"testing"
	"time"

	"github.com/ipfs/go-cid"
	"github.com/libp2p/go-libp2p/p2p/host/eventbus"
	"go.uber.org/zap"
	"google.golang.org/protobuf/proto"

	"berty.tech/weshnet/v2/internal/verifsim/kernel"
	"berty.tech/weshnet/v2/internal/verifsim/sched"
	"berty.tech/weshnet/v2/pkg/protocoltypes"
)

// C14 at its second observation point: the service's OutOfStoreSeal / OutOfStoreReceive replies. One or
// two senders and a receiver hold a multi-member group on the simulated network (real message stores and
// pipelines). Senders append messages; for a message the sender's service seals the push payload from its
// log (OutOfStoreSeal by CID) and the receiver's service opens it (OutOfStoreReceive), before, after or
// without the arrival of the log entry (the simulator owns deliveries; the receiver may be partitioned:
// "offline"), repeatedly. Oracles: the reply carries the original payload, sender device, counter, CID and
// group; AlreadyReceived is true iff the receiver's log path had delivered that entry; at the fixpoint
// every message was delivered exactly once through the log path whatever was pushed.

func TestVerifC14S(t *testing.T) {
	kernel.InstallCrypto(t)
	kernel.Component("service OutOfStoreSeal / OutOfStoreReceive, MessageStore (pipeline, GetOutOfStoreMessageEnvelope), secret store", "real")
	kernel.Component("go-orbit-db base store + replicator, go-ipfs-log", "real")
	kernel.Component("pubsub, direct channel, DAG block exchange, clock", "simulated (SimNet/SimDag/synctest)")
	kernel.Check(t, "C14", func(r *kernel.Run) {
		seed := r.Uint64("cryptoseed")
		r.Words(1500)
		res := sched.Bubble(t, func() { c14srun(r, seed) })
		if res != "" && !r.Failed() {
			r.Infra("bubble panicked: %s", res)
		}
	})
}

func c14srun(r *kernel.Run, seed uint64) {
	ctx := context.Background()
	kernel.SeedCrypto(seed)
	s := newVSim(r)
	defer s.shutdown()
	s.w.EagerDag = r.Choose(2) == 0
	nsenders := 1 + r.Choose(2)
	nmsgs := 1 + r.Choose(6)
	for i := 0; i <= nsenders; i++ {
		name := fmt.Sprintf("s%d", i)
		if i == nsenders {
			name = "recv"
		}
		if _, err := s.addNode(name, 100); err != nil {
			r.Infra("node: %v", err)
			return
		}
	}
	g, _, err := protocoltypes.NewGroupMultiMember()
	if err != nil {
		r.Infra("group: %v", err)
		return
	}
	gid := g.GroupIDAsString()
	for _, n := range s.nodes {
		if err := n.ss.PutGroup(ctx, g); err != nil { // as the service does when a group is joined / activated
			r.Infra("put group: %v", err)
			return
		}
		if _, err := n.openGroup(g); err != nil {
			r.Infra("open: %v", err)
			return
		}
	}
	R := s.nodes[nsenders]
	rmd, _ := R.ss.GetOwnMemberDeviceForGroup(g)
	for _, S := range s.nodes[:nsenders] {
		smd, _ := S.ss.GetOwnMemberDeviceForGroup(g)
		ann, err := S.ss.GetShareableChainKey(ctx, g, rmd.Member())
		if err != nil {
			r.Infra("announcement: %v", err)
			return
		}
		if err := R.ss.RegisterChainKey(ctx, g, smd.Device(), ann); err != nil {
			r.Infra("register: %v", err)
			return
		}
	}
	svc := func(n *vnode) *service {
		return &service{openedGroups: map[string]*GroupContext{string(g.PublicKey): n.gcs[gid]}, secretStore: n.ss, logger: zap.NewNop()}
	}
	sub, err := R.gcs[gid].MessageStore().EventBus().Subscribe(new(*protocoltypes.GroupMessageEvent), eventbus.BufSize(4096))
	if err != nil {
		r.Infra("subscribe: %v", err)
		return
	}
	defer sub.Close()
	online := r.Choose(2) == 0
	if online {
		s.connectAll()
	} else {
		for i := 0; i < nsenders; i++ {
			for j := i + 1; j < nsenders; j++ {
				s.w.Connect(i, j)
			}
		}
		r.Fault("receiver_offline")
	}
	r.Logf("push through the service: senders=%d messages=%d receiver online=%v eagerdag=%v", nsenders, nmsgs, online, s.w.EagerDag)
	type msg struct {
		sender  int
		payload []byte
		cid     cid.Cid
		dev     []byte
	}
	var msgs []*msg
	logDelivered := map[string]int{}
	logPayload := map[string][]byte{}
	drainSub := func() {
		s.wait()
		for {
			select {
			case e := <-sub.Out():
				ev := e.(*protocoltypes.GroupMessageEvent)
				c, _ := cid.Cast(ev.EventContext.Id)
				logDelivered[c.String()]++
				logPayload[c.String()] = ev.Message
			default:
				return
			}
		}
	}
	push := func(m *msg, where string) bool {
		drainSub()
		seal, err := svc(s.nodes[m.sender]).OutOfStoreSeal(ctx, &protocoltypes.OutOfStoreSeal_Request{Cid: m.cid.Bytes(), GroupPublicKey: g.PublicKey})
		if err != nil {
			r.Violate("push", "push-refused-but-openable", "%s: the sender's service cannot seal the push payload of its own message %s: %v", where, m.payload, err)
			return false
		}
		want := logDelivered[m.cid.String()] > 0
		rep, err := svc(R).OutOfStoreReceive(ctx, &protocoltypes.OutOfStoreReceive_Request{Payload: seal.Encrypted})
		r.Step()
		r.Logf("%s: push %s -> err=%v (log path delivered before: %v)", where, m.payload, err != nil, want)
		if err != nil {
			r.Violate("push", "push-refused-but-openable", "%s: the receiver holds the sender's chain key but OutOfStoreReceive refuses the push payload of %s: %v", where, m.payload, err)
			return false
		}
		// the reply's cleartext is the serialized EncryptedMessage (plaintext + protocol metadata), as for the secret-store API
		var em protocoltypes.EncryptedMessage
		_ = proto.Unmarshal(rep.Cleartext, &em)
		if !bytes.Equal(em.Plaintext, m.payload) || !bytes.Equal(rep.GroupPublicKey, g.PublicKey) || rep.Message == nil || !bytes.Equal(rep.Message.Cid, m.cid.Bytes()) || !bytes.Equal(rep.Message.DevicePk, m.dev) {
			r.Violate("push", "wrong-message", "%s: OutOfStoreReceive of the push payload of %s returns plaintext %q, group match %v, cid match %v, device match %v", where, m.payload, em.Plaintext,
				bytes.Equal(rep.GroupPublicKey, g.PublicKey), rep.Message != nil && bytes.Equal(rep.Message.Cid, m.cid.Bytes()), rep.Message != nil && bytes.Equal(rep.Message.DevicePk, m.dev))
			return false
		}
		if rep.AlreadyReceived != want {
			r.Violate("push", "already-received-flag", "%s: OutOfStoreReceive of %s reports AlreadyReceived=%v but the log path had delivered that entry: %v", where, m.payload, rep.AlreadyReceived, want)
			return false
		}
		if want {
			r.Probe("push_after_log")
		} else {
			r.Probe("push_before_log")
		}
		r.Fault("push_delivery")
		return true
	}
	steps := nmsgs*3 + r.Choose(6)
	for st := 0; st < steps && !r.Failed(); st++ {
		for k := s.r.Choose(6); k > 0; k-- {
			if !s.netStep(false) {
				break
			}
		}
		switch c := s.r.Choose(4); {
		case c == 0 && len(msgs) < nmsgs:
			si := s.r.Choose(nsenders)
			S := s.nodes[si]
			payload := []byte(fmt.Sprintf("s%d-m%d", si, len(msgs)))
			op, err := S.gcs[gid].MessageStore().AddMessage(ctx, payload)
			if err != nil {
				r.Infra("AddMessage: %v", err)
				return
			}
			s.wait()
			dev, _ := S.gcs[gid].DevicePubKey().Raw()
			msgs = append(msgs, &msg{sender: si, payload: payload, cid: op.GetEntry().GetHash(), dev: dev})
			r.Logf("send %s", payload)
		case c == 1 || c == 2:
			if len(msgs) > 0 {
				if !push(msgs[s.r.Choose(len(msgs))], fmt.Sprintf("step %d", st)) {
					return
				}
			}
		case c == 3 && !online && s.r.Choose(3) == 0:
			s.connectAll()
			online = true
			r.Logf("receiver comes online")
		}
	}
	if r.Failed() {
		return
	}
	if !s.settle([]*protocoltypes.Group{g}) {
		r.Infra("no fixpoint")
		return
	}
	r.SimTime(time.Second)
	drainSub()
	for _, m := range msgs {
		n := logDelivered[m.cid.String()]
		if n == 0 {
			r.Violate("log-path", "log-open-refused-but-openable", "at the fixpoint the receiver holds the log entry of %s and the sender's chain key, but the message was not delivered through the log path (it had been pushed: the push path must not disturb the log path)", m.payload)
			return
		}
		if n > 1 {
			r.Violate("log-path", "wrong-payload", "message %s was delivered %d times through the log path", m.payload, n)
			return
		}
		if !bytes.Equal(logPayload[m.cid.String()], m.payload) {
			r.Violate("log-path", "wrong-payload", "message %s was delivered through the log path with payload %q", m.payload, logPayload[m.cid.String()])
			return
		}
		if !push(m, "at the fixpoint") {
			return
		}
	}
	r.Probe("service_push_session_checked")
	if s.delivered > 0 {
		r.Nontrivial()
	}
}
