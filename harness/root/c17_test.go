//go:build verif

package weshnet

import (
	"bytes"
	"fmt"
	"google.golang.org/protobuf/proto"
	"testing"
	"testing/synctest"
	"time"

	"github.com/libp2p/go-libp2p/core/crypto"
	"github.com/libp2p/go-libp2p/core/peer"

	"berty.tech/go-ipfs-log/enc"
	"berty.tech/go-orbit-db/iface"
	"berty.tech/weshnet/v2/internal/verifsim/kernel"
	"berty.tech/weshnet/v2/internal/verifsim/sched"
	"berty.tech/weshnet/v2/pkg/protocoltypes"
	"berty.tech/weshnet/v2/pkg/rendezvous"
	"berty.tech/weshnet/v2/pkg/secretstore"
)

// C17: rendezvous points are deterministic, agreed between peers, and rotate on time.
// Two peers (each its own RotationInterval and head-exchange marshaler) live on the simulated clock;
// histories of register / advance-the-clock (within a period, exactly to a boundary, across one or
// two boundaries, across the grace period) / resolve / exchange rotation values / Marshal-Unmarshal
// are drawn from the seed; period boundaries +-1 s are always candidates.

type c17peer struct {
	name string
	rp   *rendezvous.RotationInterval
	mm   *OrbitDBMessageMarshaler
	// per topic
	registered   map[string]bool
	resolvedIn   map[string]int64 // unix start of the period in which this peer last resolved/registered the topic
	lastRotation map[string][]byte
	prevRotation map[string][]byte
	rotatedAt    map[string]time.Time
}

func TestVerifC17(t *testing.T) {
	kernel.InstallCrypto(t)
	kernel.Component("pkg/rendezvous (points, RotationInterval), OrbitDBMessageMarshaler", "real")
	kernel.Component("clock and timers", "simulated (testing/synctest)")
	kernel.Component("second peer / exchange of rotation values", "simulated (values handed over by the harness)")
	kernel.Check(t, "C17", func(r *kernel.Run) {
		seed := r.Uint64("cryptoseed")
		r.Words(400)
		res := sched.Bubble(t, func() { c17run(r, seed) })
		if res != "" && !r.Failed() {
			r.Infra("bubble panicked: %s", res)
		}
	})
}

func c17run(r *kernel.Run, seed uint64) {
	kernel.SeedCrypto(seed)
	intervals := []time.Duration{time.Second, 2 * time.Second, 7 * time.Second, time.Minute, time.Hour, 24 * time.Hour, 0}
	interval := intervals[r.Choose(len(intervals))]
	static := interval == 0
	g, _, err := protocoltypes.NewGroupMultiMember()
	if err != nil {
		r.Infra("group: %v", err)
		return
	}
	linkKey, _ := g.GetLinkKeyArray()
	sk, _ := enc.NewSecretbox(linkKey[:])
	topics := []string{"/orbitdb/topicA", "/orbitdb/topicB"}
	seeds := map[string][]byte{topics[0]: linkKey[:], topics[1]: kernel.DetBytes(5, 32)}
	peers := make([]*c17peer, 2)
	for i := range peers {
		ss, err := secretstore.NewInMemSecretStore(nil)
		if err != nil {
			r.Infra("secret store: %v", err)
			return
		}
		_, pub, _ := crypto.GenerateEd25519Key(nil)
		pid, _ := peer.IDFromPublicKey(pub)
		var rp *rendezvous.RotationInterval
		if static {
			rp = rendezvous.NewStaticRotationInterval()
		} else {
			rp = rendezvous.NewRotationInterval(interval)
		}
		mm := NewOrbitDBMessageMarshaler(pid, ss, rp, false)
		for _, tp := range topics {
			mm.RegisterGroup(tp, g)
			mm.RegisterSharedKeyForTopic(tp, sk)
		}
		peers[i] = &c17peer{name: fmt.Sprintf("p%d", i), rp: rp, mm: mm, registered: map[string]bool{}, resolvedIn: map[string]int64{},
			lastRotation: map[string][]byte{}, prevRotation: map[string][]byte{}, rotatedAt: map[string]time.Time{}}
	}
	r.Logf("rotation interval=%v static=%v", interval, static)

	period := func(t time.Time) int64 {
		if static {
			return 0
		}
		return rendezvous.RoundTimePeriod(t, interval).Unix()
	}
	// pure functions: rounding model and digest relations
	{
		now := time.Now()
		if !static {
			p := rendezvous.RoundTimePeriod(now, interval)
			if p.After(now) || !now.Before(p.Add(interval)) || p.Unix()%int64(interval.Seconds()) != 0 {
				r.Violate("period", "rounding", "RoundTimePeriod(%v, %v) = %v is not the start of the period containing the instant", now, interval, p)
				return
			}
			if nx := rendezvous.NextTimePeriod(now, interval); !nx.Equal(p.Add(interval)) {
				r.Violate("period", "rounding", "NextTimePeriod(%v) = %v, expected %v", now, nx, p.Add(interval))
				return
			}
		}
		a := rendezvous.GenerateRendezvousPointForPeriod([]byte(topics[0]), seeds[topics[0]], now)
		b := rendezvous.GenerateRendezvousPointForPeriod([]byte(topics[0]), seeds[topics[0]], now)
		c := rendezvous.GenerateRendezvousPointForPeriod([]byte(topics[1]), seeds[topics[0]], now)
		d := rendezvous.GenerateRendezvousPointForPeriod([]byte(topics[0]), seeds[topics[1]], now)
		e := rendezvous.GenerateRendezvousPointForPeriod([]byte(topics[0]), seeds[topics[0]], now.Add(time.Second))
		if !bytes.Equal(a, b) || bytes.Equal(a, c) || bytes.Equal(a, d) || bytes.Equal(a, e) {
			r.Violate("digest", "digest-relations", "the point must be deterministic and change with topic, seed and period start")
			return
		}
	}

	resolve := func(p *c17peer, tp string, where string) ([]byte, bool) {
		pt, err := p.rp.PointForTopic(tp)
		now := time.Now()
		if !p.registered[tp] {
			if err == nil {
				r.Violate("resolve", "unknown-topic-resolved", "%s: %s resolved a topic it never registered", where, p.name)
				return nil, false
			}
			return nil, true
		}
		if err != nil {
			r.Violate("resolve", "registered-topic-not-resolved", "%s: %s cannot resolve a registered topic: %v", where, p.name, err)
			return nil, false
		}
		if !pt.Deadline().After(now) {
			r.Violate("rotation", "stale-point-after-deadline", "%s: at %s peer %s resolves the topic to a point whose deadline %s is not in the future (registered earlier, never rotated)", where, now.UTC().Format(time.RFC3339), p.name, pt.Deadline().UTC().Format(time.RFC3339))
			return nil, false
		}
		if !static {
			want := p.rp.NewRendezvousPointForPeriod(now, tp, seeds[tp])
			if !bytes.Equal(pt.RawRotationTopic(), want.RawRotationTopic()) {
				r.Violate("rotation", "point-of-another-period", "%s: at %s peer %s resolves the topic to a point that is not the point of the period containing now", where, now.UTC().Format(time.RFC3339), p.name)
				return nil, false
			}
		}
		if pt.Topic() != tp {
			r.Violate("resolve", "wrong-topic", "%s: resolved point maps to topic %q", where, pt.Topic())
			return nil, false
		}
		cur := period(now)
		if old, ok := p.resolvedIn[tp]; ok && old != cur {
			p.prevRotation[tp] = p.lastRotation[tp]
			p.rotatedAt[tp] = now
			r.Probe("rotation_observed")
		}
		p.resolvedIn[tp] = cur
		p.lastRotation[tp] = append([]byte(nil), pt.RawRotationTopic()...)
		return p.lastRotation[tp], true
	}

	// newcomer: a peer that registers the topic at this very moment (it opened the group, or started, in the current
	// period and has never seen an older value) must accept the rotation value a sender puts on the wire now
	newcomer := func(where string, sender *c17peer, tp string, payload []byte) bool {
		var heads protocoltypes.OrbitDBMessageHeads
		if err := proto.Unmarshal(payload, &heads); err != nil {
			r.Violate("marshal", "marshal-failed", "%s: the sealed head exchange is not a readable message: %v", where, err)
			return false
		}
		var fr *rendezvous.RotationInterval
		if static {
			fr = rendezvous.NewStaticRotationInterval()
		} else {
			fr = rendezvous.NewRotationInterval(interval)
		}
		fr.RegisterRotation(time.Now(), tp, seeds[tp])
		pt, err := fr.PointForRawRotation(heads.RawRotation)
		if err != nil {
			r.Violate("marshal", "unmarshal-refused", "%s: a peer that registers %s now refuses the rotation value %s puts on the wire now: %v", where, tp, sender.name, err)
			return false
		}
		if pt.Topic() != tp {
			r.Violate("marshal", "wrong-address", "%s: the rotation value on the wire maps to %q", where, pt.Topic())
			return false
		}
		r.Probe("wire_value_accepted_by_newcomer")
		return true
	}
	nev := 2 + r.Choose(19)
	for ev := 0; ev < nev && !r.Failed(); ev++ {
		p := peers[r.Choose(2)]
		o := peers[1-r.Choose(2)]
		tp := topics[r.Choose(2)]
		switch a := r.Choose(10); {
		case a <= 1: // register (again, in the same or another period)
			p.rp.RegisterRotation(time.Now(), tp, seeds[tp])
			p.registered[tp] = true
			cur := period(time.Now())
			if old, ok := p.resolvedIn[tp]; ok && old != cur {
				p.prevRotation[tp] = p.lastRotation[tp]
				p.rotatedAt[tp] = time.Now()
			}
			p.resolvedIn[tp] = cur
			p.lastRotation[tp] = p.rp.NewRendezvousPointForPeriod(time.Now(), tp, seeds[tp]).RawRotationTopic()
			r.Logf("%s registers %s at +%v", p.name, tp, time.Since(time.Date(2000, 1, 1, 0, 0, 0, 0, time.UTC)))
		case a <= 4: // advance the clock
			var d time.Duration
			now := time.Now()
			iv := interval
			if static {
				iv = time.Hour
			}
			toBoundary := rendezvous.NextTimePeriod(now, iv).Sub(now)
			switch r.Choose(7) {
			case 0:
				d = time.Duration(1+r.Choose(900)) * time.Millisecond
			case 1:
				d = toBoundary
			case 2:
				d = toBoundary - time.Second
			case 3:
				d = toBoundary + time.Second
			case 4:
				d = toBoundary + iv + time.Duration(r.Choose(1000))*time.Millisecond
			case 5:
				d = rendezvous.RotationGracePeriod + time.Second
			default:
				d = time.Duration(1+r.Choose(int(iv/time.Millisecond))) * time.Millisecond
			}
			if d <= 0 {
				d = time.Millisecond
			}
			before := period(now)
			time.Sleep(d)
			synctest.Wait() // timers that became due (the cleanup of old rotation values) run before the next event
			r.SimTime(d)
			if period(time.Now()) != before {
				r.Fault("clock_jump_across_period")
			} else {
				r.Fault("clock_advance_within_period")
			}
			r.Logf("advance %v", d)
		case a <= 6: // resolve
			if _, ok := resolve(p, tp, fmt.Sprintf("event %d", ev)); !ok {
				return
			}
			r.Logf("%s resolves %s", p.name, tp)
		case a == 7: // exchange of rotation values between two peers that resolved in the current period
			r.Logf("%s and %s resolve %s and exchange values", p.name, o.name, tp)
			va, ok := resolve(p, tp, fmt.Sprintf("event %d (sender)", ev))
			if !ok {
				return
			}
			if _, ok := resolve(o, tp, fmt.Sprintf("event %d (receiver)", ev)); !ok {
				return
			}
			if va == nil || !o.registered[tp] || p == o {
				continue
			}
			pt, err := o.rp.PointForRawRotation(va)
			if err != nil {
				r.Violate("agreement", "peer-value-refused", "event %d: both peers resolved the topic in the current period but %s refuses %s's rotation value: %v", ev, o.name, p.name, err)
				return
			}
			if pt.Topic() != tp {
				r.Violate("agreement", "peer-value-wrong-topic", "event %d: %s maps %s's rotation value to topic %q", ev, o.name, p.name, pt.Topic())
				return
			}
			r.Probe("values_exchanged")
		case a == 8: // through the head-exchange marshaler
			if !p.registered[tp] || p == o {
				continue
			}
			if !o.registered[tp] {
				// nobody to open it yet: the sender seals anyway (a head exchange is sent to whoever listens); this is
				// what a peer that registers the topic LATER, in another period, has never seen
				if _, ok := resolve(p, tp, fmt.Sprintf("event %d (sender)", ev)); !ok {
					return
				}
				payload, err := p.mm.Marshal(&iface.MessageExchangeHeads{Address: tp})
				if err != nil {
					r.Violate("marshal", "marshal-failed", "event %d: Marshal on %s failed for a registered topic: %v", ev, p.name, err)
					return
				}
				if !newcomer(fmt.Sprintf("event %d", ev), p, tp, payload) {
					return
				}
				r.Logf("head exchange for %s sealed by %s, nobody opens it", tp, p.name)
				r.Probe("sealed_without_receiver")
				continue
			}
			r.Logf("head exchange for %s sealed by %s, opened by %s", tp, p.name, o.name)
			// sealing resolves the topic on the sender (and may rotate its point): track it like any other resolve,
			// otherwise the model's "previous value" of the sender falls one rotation behind the code's
			if _, ok := resolve(p, tp, fmt.Sprintf("event %d (sender)", ev)); !ok {
				return
			}
			if _, ok := resolve(o, tp, fmt.Sprintf("event %d (receiver)", ev)); !ok {
				return
			}
			payload, err := p.mm.Marshal(&iface.MessageExchangeHeads{Address: tp})
			if err != nil {
				r.Violate("marshal", "marshal-failed", "event %d: Marshal on %s failed for a registered topic: %v", ev, p.name, err)
				return
			}
			p.resolvedIn[tp] = period(time.Now())
			if !newcomer(fmt.Sprintf("event %d", ev), p, tp, payload) {
				return
			}
			var msg iface.MessageExchangeHeads
			if err := o.mm.Unmarshal(payload, &msg); err != nil {
				r.Violate("marshal", "unmarshal-refused", "event %d: %s cannot open the head exchange sealed by %s in the same period: %v", ev, o.name, p.name, err)
				return
			}
			if msg.Address != tp {
				r.Violate("marshal", "wrong-address", "event %d: head exchange for %q opened as %q", ev, tp, msg.Address)
				return
			}
			r.Probe("marshal_roundtrip")
		default: // own previous value during the grace period; foreign values
			r.Logf("%s: own previous value of %s (if within grace), foreign values", p.name, tp)
			if prev := p.prevRotation[tp]; prev != nil && time.Since(p.rotatedAt[tp]) < rendezvous.RotationGracePeriod && !static {
				if _, ok := resolve(p, tp, fmt.Sprintf("event %d", ev)); !ok {
					return
				}
				if prev2 := p.prevRotation[tp]; prev2 != nil && bytes.Equal(prev, prev2) && time.Since(p.rotatedAt[tp]) < rendezvous.RotationGracePeriod {
					pt, err := p.rp.PointForRawRotation(prev)
					if err != nil {
						r.Violate("grace", "previous-value-refused-during-grace", "event %d: %s refuses its own previous rotation value %v after the rotation: %v", ev, p.name, time.Since(p.rotatedAt[tp]), err)
						return
					}
					if pt.Topic() != tp {
						r.Violate("grace", "previous-value-wrong-topic", "event %d: previous value maps to %q", ev, pt.Topic())
						return
					}
					r.Probe("previous_value_accepted_in_grace")
				}
			}
			foreign := rendezvous.GenerateRendezvousPointForPeriod([]byte(tp), kernel.DetBytes(uint64(ev)+1000, 32), time.Now())
			if _, err := p.rp.PointForRawRotation(foreign); err == nil {
				r.Violate("agreement", "foreign-value-accepted", "event %d: a rotation value derived from another seed is accepted", ev)
				return
			}
			if _, err := p.rp.PointForTopic("/orbitdb/unknown"); err == nil {
				r.Violate("resolve", "unknown-topic-resolved", "event %d: an unregistered topic resolves", ev)
				return
			}
		}
		r.Step()
	}
	r.Nontrivial()
}
