//go:build verif

package weshnet

import (
	"bytes"
	"context"
	"fmt"
	"sort"
	"strings"
	"testing"
	"time"

	"github.com/libp2p/go-libp2p/core/crypto"

	ipfslog "berty.tech/go-ipfs-log"
	"berty.tech/weshnet/v2/internal/verifsim/kernel"
	"berty.tech/weshnet/v2/internal/verifsim/sched"
	"berty.tech/weshnet/v2/pkg/protocoltypes"
)

// C04: the state a group exposes is a function of the set of metadata log entries only.
// Real replicas (devices of one account on the account group, or members of a multi-member group)
// perform metadata operations while the simulator decides every delivery (order, batching through
// late head announcements, drops repaired by head exchange, duplicates), partitions, clean
// restarts and extra re-indexing. Oracles: equal entry sets => equal state digests; digest stable
// under reopen and re-index; for causally ordered histories digest == fold model; convergence of
// entry sets at the anti-entropy fixpoint.

type c04contact struct {
	pk   crypto.PubKey
	raw  []byte
	seed []byte
	meta []byte
}

// c04fold is the reference fold (appendix B.2) over a causally ordered list of appended events.
type c04event struct {
	kind    string // enq, sent, recv, discard, accept, block, unblock, cr_on, cr_off, cr_reset, join, leave, cred
	contact int
	seed    []byte
	meta    []byte
	own     []byte
	group   string
	ident   string
}

type c04mcontact struct {
	state     protocoltypes.ContactState
	seed      []byte
	meta      []byte
	hasRecord bool
}

// c04foldContacts returns the folded record of every contact (latest event wins, older carrying events backfill).
func c04foldContacts(events []c04event) map[int]*c04mcontact {
	cs := map[int]*c04mcontact{}
	for i := len(events) - 1; i >= 0; i-- {
		e := events[i]
		switch e.kind {
		case "enq", "recv":
			if c, ok := cs[e.contact]; ok {
				if c.meta == nil {
					c.meta = e.meta
				}
				if c.seed == nil {
					c.seed = e.seed
				}
				continue
			}
			st := protocoltypes.ContactState_ContactStateToRequest
			if e.kind == "recv" {
				st = protocoltypes.ContactState_ContactStateReceived
			}
			cs[e.contact] = &c04mcontact{state: st, seed: e.seed, meta: e.meta}
		case "sent", "accept", "discard", "block", "unblock":
			if _, ok := cs[e.contact]; !ok {
				cs[e.contact] = &c04mcontact{}
			}
		}
	}
	return cs
}

func c04foldDigest(events []c04event, contacts []*c04contact, base string) string {
	cs := map[int]*c04mcontact{}
	own := map[int][]byte{}
	var crEnabled *bool
	var crSeed []byte
	groups := map[string]bool{}
	groupSeen := map[string]bool{}
	var creds []string
	for i := len(events) - 1; i >= 0; i-- { // newest first: the latest event about a subject wins
		e := events[i]
		switch e.kind {
		case "enq", "recv":
			if c, ok := cs[e.contact]; ok {
				if c.meta == nil {
					c.meta = e.meta
				}
				if c.seed == nil {
					c.seed = e.seed
				}
				continue
			}
			st := protocoltypes.ContactState_ContactStateToRequest
			if e.kind == "recv" {
				st = protocoltypes.ContactState_ContactStateReceived
			} else if d, ok := own[e.contact]; !ok || len(d) == 0 {
				own[e.contact] = e.own
			}
			cs[e.contact] = &c04mcontact{state: st, seed: e.seed, meta: e.meta}
		case "sent", "accept", "discard", "block", "unblock":
			if _, ok := cs[e.contact]; ok {
				continue
			}
			st := map[string]protocoltypes.ContactState{
				"sent": protocoltypes.ContactState_ContactStateAdded, "accept": protocoltypes.ContactState_ContactStateAdded,
				"discard": protocoltypes.ContactState_ContactStateDiscarded, "block": protocoltypes.ContactState_ContactStateBlocked,
				"unblock": protocoltypes.ContactState_ContactStateRemoved,
			}[e.kind]
			cs[e.contact] = &c04mcontact{state: st}
		case "cr_on", "cr_off":
			if crEnabled == nil {
				v := e.kind == "cr_on"
				crEnabled = &v
			}
		case "cr_reset":
			if crSeed == nil {
				crSeed = e.seed
			}
		case "join", "leave":
			if !groupSeen[e.group] {
				groupSeen[e.group] = true
				groups[e.group] = e.kind == "join"
			}
		case "cred":
			creds = append(creds, e.ident)
		}
	}
	var sb strings.Builder
	type kv struct {
		k string
		i int
	}
	var keys []kv
	for i := range cs {
		keys = append(keys, kv{string(contacts[i].raw), i})
	}
	sort.Slice(keys, func(a, b int) bool { return keys[a].k < keys[b].k })
	for _, k := range keys {
		c := cs[k.i]
		fmt.Fprintf(&sb, "contact %x state=%s seed=%x meta=%x own=%x;", contacts[k.i].raw[:6], c.state, c.seed, c.meta, own[k.i])
	}
	sb.WriteString(base)
	fmt.Fprintf(&sb, "cr_enabled=%v cr_seed=%x;", crEnabled != nil && *crEnabled, crSeed)
	var gs []string
	for g, joined := range groups {
		if joined {
			gs = append(gs, g)
		}
	}
	sort.Strings(gs)
	fmt.Fprintf(&sb, "groups=%s;", strings.Join(gs, ","))
	sort.Strings(creds)
	fmt.Fprintf(&sb, "creds=%s;", strings.Join(creds, ","))
	sb.WriteString("alias_own=false alias_other=;")
	return sb.String()
}

// c04decode turns an appended log entry into a model event (ground truth = the entry itself).
func c04decode(m *MetadataStore, e ipfslog.Entry, g *protocoltypes.Group, contacts []*c04contact) (c04event, bool) {
	me, msg, err := openMetadataEntry(m.OpLog(), e, g)
	if err != nil {
		return c04event{}, false
	}
	ci := func(pk []byte) int {
		for i, c := range contacts {
			if bytes.Equal(c.raw, pk) {
				return i
			}
		}
		return -1
	}
	switch ev := msg.(type) {
	case *protocoltypes.AccountContactRequestOutgoingEnqueued:
		return c04event{kind: "enq", contact: ci(ev.Contact.Pk), seed: ev.Contact.PublicRendezvousSeed, meta: ev.Contact.Metadata, own: ev.OwnMetadata}, true
	case *protocoltypes.AccountContactRequestOutgoingSent:
		return c04event{kind: "sent", contact: ci(ev.ContactPk)}, true
	case *protocoltypes.AccountContactRequestIncomingReceived:
		return c04event{kind: "recv", contact: ci(ev.ContactPk), seed: ev.ContactRendezvousSeed, meta: ev.ContactMetadata}, true
	case *protocoltypes.AccountContactRequestIncomingDiscarded:
		return c04event{kind: "discard", contact: ci(ev.ContactPk)}, true
	case *protocoltypes.AccountContactRequestIncomingAccepted:
		return c04event{kind: "accept", contact: ci(ev.ContactPk)}, true
	case *protocoltypes.AccountContactBlocked:
		return c04event{kind: "block", contact: ci(ev.ContactPk)}, true
	case *protocoltypes.AccountContactUnblocked:
		return c04event{kind: "unblock", contact: ci(ev.ContactPk)}, true
	case *protocoltypes.AccountContactRequestEnabled:
		return c04event{kind: "cr_on"}, true
	case *protocoltypes.AccountContactRequestDisabled:
		return c04event{kind: "cr_off"}, true
	case *protocoltypes.AccountContactRequestReferenceReset:
		return c04event{kind: "cr_reset", seed: ev.PublicRendezvousSeed}, true
	case *protocoltypes.AccountGroupJoined:
		return c04event{kind: "join", group: fmt.Sprintf("%x", ev.Group.PublicKey[:6])}, true
	case *protocoltypes.AccountGroupLeft:
		return c04event{kind: "leave", group: fmt.Sprintf("%x", ev.GroupPk[:6])}, true
	case *protocoltypes.AccountVerifiedCredentialRegistered:
		return c04event{kind: "cred", ident: ev.Identifier + "/" + ev.Issuer}, true
	}
	_ = me
	return c04event{}, false
}

func TestVerifC04(t *testing.T) {
	kernel.InstallCrypto(t)
	kernel.Component("MetadataStore, metadata index, GroupContext-less stores, WeshOrbitDB", "real")
	kernel.Component("go-orbit-db base store + replicator, go-ipfs-log", "real")
	kernel.Component("secret store", "real (on SimDisk)")
	kernel.Component("pubsub, direct channel, DAG block exchange", "simulated (SimNet/SimDag)")
	kernel.Component("clock", "simulated (testing/synctest)")
	kernel.Check(t, "C04", func(r *kernel.Run) {
		seed := r.Uint64("cryptoseed")
		scenario := r.Pick("scenario", 3) // 0,1: devices of one account on the account group; 2: multi-member / contact group
		r.Words(3000)
		res := sched.Bubble(t, func() {
			if scenario == 2 {
				c04group(r, seed)
			} else {
				c04account(r, seed)
			}
		})
		if res != "" && !r.Failed() {
			r.Infra("bubble panicked: %s", res)
		}
	})
}

func c04account(r *kernel.Run, seed uint64) {
	ctx := context.Background()
	kernel.SeedCrypto(seed)
	s := newVSim(r)
	defer s.shutdown()
	ndev := 2 + r.Choose(2)
	s.w.EagerDag = r.Choose(2) == 0
	if r.Choose(2) == 1 {
		s.dropRate = 1 + r.Choose(12)
	}
	if r.Choose(2) == 1 {
		s.dupRate = 1 + r.Choose(8)
	}
	nops := 1 + r.Choose(14)
	r.Logf("account group: devices=%d eagerdag=%v drop=%d/64 dup=%d/64 ops=%d", ndev, s.w.EagerDag, s.dropRate, s.dupRate, nops)
	var g *protocoltypes.Group
	for i := 0; i < ndev; i++ {
		n, err := s.addNode(fmt.Sprintf("d%d", i), 4)
		if err != nil {
			r.Infra("node: %v", err)
			return
		}
		if i > 0 {
			if err := n.importAccountFrom(s.nodes[0]); err != nil {
				r.Infra("import: %v", err)
				return
			}
		}
	}
	g, _, err := s.nodes[0].ss.GetGroupForAccount()
	if err != nil {
		r.Infra("account group: %v", err)
		return
	}
	for _, n := range s.nodes {
		if _, err := n.openGroup(g); err != nil {
			r.Infra("open: %v", err)
			return
		}
	}
	s.connectAll()
	gid := g.GroupIDAsString()
	// contacts and groups used by the operations
	contacts := make([]*c04contact, 2)
	for i := range contacts {
		_, pk, _ := crypto.GenerateEd25519Key(nil)
		raw, _ := pk.Raw()
		contacts[i] = &c04contact{pk: pk, raw: raw, seed: kernel.DetBytes(uint64(i)+77, 32), meta: []byte(fmt.Sprintf("meta-%d", i))}
	}
	mmGroups := make([]*protocoltypes.Group, 2)
	for i := range mmGroups {
		mmGroups[i], _, _ = protocoltypes.NewGroupMultiMember()
	}

	var events []c04event // appended events in append order (ground truth for causally ordered runs)
	totallyOrdered := true
	written := 0
	opNames := []string{"enq", "sent", "recv", "discard", "accept", "block", "unblock", "cr_on", "cr_off", "cr_reset", "join", "leave", "cred"}
	// swarm-style workload mix: in a third of the runs the history concentrates on one kind of subject (groups joined
	// and left again and again / the contact-request switch and seed), so that several events about ONE subject
	// follow each other (an older event overriding a newer one only shows with three or more of them)
	switch r.Choose(3) {
	case 1:
		opNames = []string{"join", "leave", "join", "leave", "enq", "block", "cred"}
		mmGroups = mmGroups[:1+r.Choose(2)]
		r.Probe("workload_mix_groups")
	case 2:
		opNames = []string{"cr_on", "cr_off", "cr_reset", "cr_on", "cr_off", "enq", "sent", "recv", "block", "unblock"}
		contacts = contacts[:1]
		r.Probe("workload_mix_switch_and_one_contact")
	}

	doOp := func(n *vnode) {
		s.wait()
		gc := n.gcs[gid]
		m := gc.MetadataStore()
		if m.OpLog().Len() != written {
			totallyOrdered = false // the writer does not hold every entry written so far: concurrent write
			r.Fault("concurrent_write")
		}
		k := opNames[s.r.Choose(len(opNames))]
		ci := s.r.Choose(len(contacts))
		c := contacts[ci]
		before := m.OpLog().Len()
		ev := c04event{kind: k, contact: ci}
		var err error
		switch k {
		case "enq":
			own := []byte(fmt.Sprintf("own-%d", written))
			_, err = m.ContactRequestOutgoingEnqueue(ctx, &protocoltypes.ShareableContact{Pk: c.raw, PublicRendezvousSeed: c.seed, Metadata: c.meta}, own)
			ev.seed, ev.meta, ev.own = c.seed, c.meta, own
		case "sent":
			_, err = m.ContactRequestOutgoingSent(ctx, c.pk)
		case "recv":
			_, err = m.ContactRequestIncomingReceived(ctx, &protocoltypes.ShareableContact{Pk: c.raw, PublicRendezvousSeed: c.seed, Metadata: c.meta})
			ev.seed, ev.meta = c.seed, c.meta
		case "discard":
			_, err = m.ContactRequestIncomingDiscard(ctx, c.pk)
		case "accept":
			_, err = m.ContactRequestIncomingAccept(ctx, c.pk)
		case "block":
			_, err = m.ContactBlock(ctx, c.pk)
		case "unblock":
			_, err = m.ContactUnblock(ctx, c.pk)
		case "cr_on":
			_, err = m.ContactRequestEnable(ctx)
		case "cr_off":
			_, err = m.ContactRequestDisable(ctx)
		case "cr_reset":
			_, err = m.ContactRequestReferenceReset(ctx)
			if err == nil {
				_, ref := m.GetIncomingContactRequestsStatus()
				ev.seed = ref.PublicRendezvousSeed
			}
		case "join":
			mg := mmGroups[s.r.Choose(len(mmGroups))]
			_, err = m.GroupJoin(ctx, mg)
			ev.group = fmt.Sprintf("%x", mg.PublicKey[:6])
		case "leave":
			mg := mmGroups[s.r.Choose(len(mmGroups))]
			pk, _ := mg.GetPubKey()
			_, err = m.GroupLeave(ctx, pk)
			ev.group = fmt.Sprintf("%x", mg.PublicKey[:6])
		case "cred":
			id := fmt.Sprintf("id%d", written)
			_, err = m.SendAccountVerifiedCredentialAdded(ctx, &protocoltypes.AccountVerifiedCredentialRegistered{Identifier: id, Issuer: "iss"})
			ev.ident = id + "/iss"
		}
		_ = ev
		s.wait()
		after := m.OpLog().Len()
		r.Logf("op %s(%d) on %s -> err=%v appended=%d", k, ci, n.name, err != nil, after-before)
		if after > before {
			// ground truth = the appended entry itself, decoded (an operation may translate into another event type,
			// e.g. enqueue on a Received contact appends OutgoingSent)
			last := m.OpLog().GetEntries().Slice()[after-1]
			dev, ok := c04decode(m, last, g, contacts)
			if !ok {
				r.Infra("cannot decode the entry just appended by %s", k)
				return
			}
			events = append(events, dev)
			written += after - before
		}
	}

	checkPairs := func(where string) {
		s.wait()
		type obs struct {
			name   string
			cids   []string
			digest string
		}
		var all []obs
		for _, n := range s.nodes {
			gc, ok := n.gcs[gid]
			if !ok {
				continue
			}
			d := metaDigest(gc.MetadataStore())
			all = append(all, obs{n.name, logCIDs(gc, true), d})
			r.State(shortHash(d))
		}
		for i := range all {
			for j := i + 1; j < len(all); j++ {
				if sameStrings(all[i].cids, all[j].cids) && all[i].digest != all[j].digest {
					r.Violate("convergence", "same-entries-different-state", "%s: replicas %s and %s hold the same %d metadata entries but report different state:\n  %s: %s\n  %s: %s",
						where, all[i].name, all[j].name, len(all[i].cids), all[i].name, all[i].digest, all[j].name, all[j].digest)
					return
				}
			}
		}
	}

	partitioned := [][2]int{}
	for op := 0; op < nops && !r.Failed(); op++ {
		// network activity and faults between operations
		for k := s.r.Choose(12); k > 0; k-- {
			if !s.netStep(true) {
				break
			}
		}
		switch s.r.Choose(10) {
		case 0: // partition a pair
			a, b := s.r.Choose(ndev), s.r.Choose(ndev)
			if a != b && s.w.Connected(a, b) {
				s.w.Disconnect(a, b)
				partitioned = append(partitioned, [2]int{a, b})
				r.Fault("partition")
				r.Logf("partition %s|%s", s.nodes[a].name, s.nodes[b].name)
			}
		case 1: // heal
			if len(partitioned) > 0 {
				p := partitioned[0]
				partitioned = partitioned[1:]
				s.w.Connect(p[0], p[1])
				r.Fault("heal")
				r.Logf("heal %s|%s", s.nodes[p[0]].name, s.nodes[p[1]].name)
			}
		case 2: // clean restart of a replica: digest must be unchanged by reopen
			n := s.nodes[s.r.Choose(ndev)]
			s.wait()
			gc := n.gcs[gid]
			beforeD, beforeC := metaDigest(gc.MetadataStore()), logCIDs(gc, true)
			n.stop()
			s.w.Restart(n.nn)
			s.wait()
			if err := n.start(); err != nil {
				r.Infra("restart: %v", err)
				return
			}
			gc2, err := n.openGroup(g)
			if err != nil {
				r.Infra("reopen: %v", err)
				return
			}
			s.wait()
			r.Fault("restart")
			r.Logf("restart %s", n.name)
			afterC := logCIDs(gc2, true)
			if sameStrings(beforeC, afterC) {
				if afterD := metaDigest(gc2.MetadataStore()); afterD != beforeD {
					r.Violate("reopen", "state-changed-by-reopen", "replica %s reports a different state after closing and reopening the group with the same %d entries:\n  before: %s\n  after:  %s", n.name, len(afterC), beforeD, afterD)
					return
				}
				r.Probe("reopen_same_entries")
			} else if len(afterC) < len(beforeC) {
				r.Probe("reopen_lost_entries")
			}
			// the restarted node rejoins its topics
			for i := range s.nodes {
				if i != n.nn.Index {
					s.w.Rejoin(i, n.nn.Index)
				}
			}
		case 3: // extra re-index: must not change the state
			n := s.nodes[s.r.Choose(ndev)]
			s.wait()
			m := n.gcs[gid].MetadataStore()
			beforeD := metaDigest(m)
			for k := 1 + s.r.Choose(2); k > 0; k-- {
				_ = m.Index().UpdateIndex(m.OpLog(), nil)
			}
			if afterD := metaDigest(m); afterD != beforeD {
				r.Violate("reindex", "state-changed-by-reindex", "replica %s reports a different state after re-indexing the same log:\n  before: %s\n  after:  %s", n.name, beforeD, afterD)
				return
			}
			r.Probe("reindex")
		}
		doOp(s.nodes[s.r.Choose(ndev)])
		checkPairs(fmt.Sprintf("after op %d", op))
	}
	if r.Failed() {
		return
	}
	// quiesce: heal, anti-entropy to the fixpoint, then all replicas must hold the same entries and state
	if !s.settle([]*protocoltypes.Group{g}) {
		r.Infra("no fixpoint after 40 anti-entropy rounds")
		return
	}
	r.SimTime(time.Second)
	var ref []string
	for i, n := range s.nodes {
		c := logCIDs(n.gcs[gid], true)
		if i == 0 {
			ref = c
		} else if !sameStrings(ref, c) {
			r.Violate("fixpoint", "entries-not-converged", "after faults stopped and head exchange reached a fixpoint, %s holds %d entries and %s holds %d", s.nodes[0].name, len(ref), n.name, len(c))
			return
		}
	}
	if len(ref) != written {
		r.Violate("fixpoint", "entries-lost", "%d entries were appended but replicas hold %d at the fixpoint", written, len(ref))
		return
	}
	checkPairs("at the fixpoint")
	if r.Failed() {
		return
	}
	if s.delivered > 0 {
		r.Nontrivial()
	}
	if totallyOrdered {
		r.Probe("causally_ordered_history")
		m := s.nodes[0].gcs[gid].MetadataStore()
		base := fmt.Sprintf("members=%s;devices=%s;admins=%s;", sortedPKs(m.ListMembers()), sortedPKs(m.ListDevices()), sortedPKs(m.ListAdmins()))
		want := c04foldDigest(events, contacts, base)
		for _, n := range s.nodes {
			if got := metaDigest(n.gcs[gid].MetadataStore()); got != want {
				r.Violate("fold", "state-differs-from-fold", "causally ordered history of %d events: replica %s reports\n  %s\nbut applying the events in log order (latest event about a subject wins) gives\n  %s", len(events), n.name, got, want)
				return
			}
		}
	} else {
		r.Probe("concurrent_history")
	}
}
