//go:build verif

package weshnet

import (
	"archive/tar"
	"bytes"
	"context"
	"fmt"
	cbornode "github.com/ipfs/go-ipld-cbor"
	mh "github.com/multiformats/go-multihash"
	"io"
	"strings"
	"testing"
	"time"

	coreiface "github.com/ipfs/kubo/core/coreiface"
	"github.com/libp2p/go-libp2p/core/crypto"
	"go.uber.org/zap"

	"berty.tech/weshnet/v2/internal/verifsim/kernel"
	simnet "berty.tech/weshnet/v2/internal/verifsim/net"
	"berty.tech/weshnet/v2/internal/verifsim/sched"
	"berty.tech/weshnet/v2/pkg/ipfsutil"
	"berty.tech/weshnet/v2/pkg/protocoltypes"
)

// C20: an account export restores to the same identity, logs and state.
// A node builds a seeded account history (contacts, contact-request switch, a joined multi-member
// group with metadata and messages); the real service.export writes the archive; the archive is
// optionally mutated (flipped bytes in entry / heads / key members, dropped, duplicated, reordered
// members, truncation); the real RestoreAccountExport runs on a fresh node (fresh SimDisk, fresh
// SimDag, no network) on the simulated clock.

type c20api struct {
	ipfsutil.ExtendedCoreAPI // nil: only the DAG and the node key are used by export
	n                        *simnet.Node
}

func (a c20api) Dag() coreiface.APIDagService { return a.n.Dag() }
func (a c20api) Key() coreiface.KeyAPI        { return a.n.Key() }

type c20member struct {
	hdr  tar.Header
	data []byte
}

func c20parse(b []byte) ([]c20member, error) {
	tr := tar.NewReader(bytes.NewReader(b))
	var out []c20member
	for {
		h, err := tr.Next()
		if err == io.EOF {
			return out, nil
		}
		if err != nil {
			return out, err
		}
		d, err := io.ReadAll(tr)
		if err != nil {
			return out, err
		}
		out = append(out, c20member{*h, d})
	}
}

func c20write(ms []c20member) []byte {
	var buf bytes.Buffer
	tw := tar.NewWriter(&buf)
	for _, m := range ms {
		h := m.hdr
		h.Size = int64(len(m.data))
		_ = tw.WriteHeader(&h)
		_, _ = tw.Write(m.data)
	}
	_ = tw.Close()
	return buf.Bytes()
}

func TestVerifC20(t *testing.T) {
	kernel.InstallCrypto(t)
	kernel.Component("service.export, RestoreAccountExport, WeshOrbitDB.setHeadsForGroup, secret store import", "real")
	kernel.Component("go-orbit-db base store + replicator, go-ipfs-log, metadata index", "real")
	kernel.Component("DAG block store, datastore, clock", "simulated (SimDag/SimDisk/synctest)")
	kernel.Component("archive in transit", "simulated (mutations chosen by the seed)")
	kernel.Check(t, "C20", func(r *kernel.Run) {
		seed := r.Uint64("cryptoseed")
		r.Words(800)
		res := sched.Bubble(t, func() { c20run(r, seed) })
		if res != "" && !r.Failed() {
			r.Violate("panic", "export-restore-panicked", "export or restore panicked: %s", res)
		}
	})
}

func c20run(r *kernel.Run, seed uint64) {
	ctx := context.Background()
	kernel.SeedCrypto(seed)
	s := newVSim(r)
	defer s.shutdown()
	s.w.EagerDag = true
	A, err := s.addNode("A", 8)
	if err != nil {
		r.Infra("node: %v", err)
		return
	}
	ag, _, err := A.ss.GetGroupForAccount()
	if err != nil {
		r.Infra("account: %v", err)
		return
	}
	agc, err := A.openGroup(ag)
	if err != nil {
		r.Infra("open: %v", err)
		return
	}
	am := agc.MetadataStore()
	// account history
	nops := s.r.Choose(10)
	var contacts []crypto.PubKey
	for i := 0; i < 2; i++ {
		_, pk, _ := crypto.GenerateEd25519Key(nil)
		contacts = append(contacts, pk)
	}
	for i := 0; i < nops; i++ {
		c := contacts[s.r.Choose(2)]
		raw, _ := c.Raw()
		sc := &protocoltypes.ShareableContact{Pk: raw, PublicRendezvousSeed: kernel.DetBytes(uint64(i), 32), Metadata: []byte("m")}
		switch s.r.Choose(7) {
		case 0:
			_, _ = am.ContactRequestOutgoingEnqueue(ctx, sc, []byte("own"))
		case 1:
			_, _ = am.ContactRequestOutgoingSent(ctx, c)
		case 2:
			_, _ = am.ContactRequestIncomingReceived(ctx, sc)
		case 3:
			_, _ = am.ContactRequestIncomingAccept(ctx, c)
		case 4:
			_, _ = am.ContactBlock(ctx, c)
		case 5:
			_, _ = am.ContactRequestEnable(ctx)
		default:
			_, _ = am.ContactRequestReferenceReset(ctx)
		}
	}
	groups := []*GroupContext{agc}
	var mm *protocoltypes.Group
	if s.r.Choose(3) != 0 {
		mm, _, _ = protocoltypes.NewGroupMultiMember()
		if _, err := am.GroupJoin(ctx, mm); err != nil {
			r.Infra("join: %v", err)
			return
		}
		mgc, err := A.openGroup(mm)
		if err != nil {
			r.Infra("open mm: %v", err)
			return
		}
		for i, k := 0, s.r.Choose(6); i < k; i++ {
			if s.r.Choose(2) == 0 {
				_, _ = mgc.MetadataStore().SendAppMetadata(ctx, []byte(fmt.Sprintf("meta-%d", i)))
			} else {
				_, _ = mgc.MessageStore().AddMessage(ctx, []byte(fmt.Sprintf("msg-%d", i)))
			}
			s.wait()
		}
		// another member wrote to the group meanwhile (partitioned), then the logs were merged: the exported logs
		// then have several heads of different logical times unless the account wrote again after the merge
		if s.r.Choose(2) == 0 {
			M, err := s.addNode("M", 8)
			if err != nil {
				r.Infra("node: %v", err)
				return
			}
			mmgc, err := M.openGroup(mm)
			if err != nil {
				r.Infra("open mm on M: %v", err)
				return
			}
			for i, k := 0, 1+s.r.Choose(4); i < k; i++ {
				if s.r.Choose(2) == 0 {
					_, _ = mmgc.MetadataStore().SendAppMetadata(ctx, []byte(fmt.Sprintf("other-meta-%d", i)))
				} else {
					_, _ = mmgc.MessageStore().AddMessage(ctx, []byte(fmt.Sprintf("other-msg-%d", i)))
				}
				s.wait()
			}
			if !s.settle([]*protocoltypes.Group{mm}) {
				r.Infra("no fixpoint")
				return
			}
			r.Fault("merged_with_another_writer")
			if mgc.MetadataStore().OpLog().Heads().Len() > 1 || mgc.MessageStore().OpLog().Heads().Len() > 1 {
				r.Probe("exported_log_has_several_heads")
			}
			if s.r.Choose(3) == 0 {
				_, _ = mgc.MetadataStore().SendAppMetadata(ctx, []byte("after-merge"))
				s.wait()
			}
			// the restored node has no network: the other member goes away
			s.w.Disconnect(A.nn.Index, M.nn.Index)
			M.stop()
			s.w.SetDown(M.nn, true)
			s.wait()
		}
		groups = append(groups, mgc)
	}
	s.wait()
	svc := &service{secretStore: A.ss, ipfsCoreAPI: c20api{n: A.nn}, logger: zap.NewNop(), openedGroups: map[string]*GroupContext{}}
	for _, gc := range groups {
		svc.openedGroups[string(gc.Group().PublicKey)] = gc
	}
	var buf bytes.Buffer
	if err := svc.export(ctx, &buf); err != nil {
		r.Violate("export", "export-failed", "export failed: %v", err)
		return
	}
	archive := buf.Bytes()
	members, err := c20parse(archive)
	if err != nil {
		r.Violate("export", "archive-unreadable", "the exported archive is not a readable tar: %v", err)
		return
	}
	// the archive contains the two keys and, per group, every entry byte-for-byte under its CID and the heads
	names := map[string]int{}
	for _, m := range members {
		names[m.hdr.Name]++
	}
	if names[exportAccountKeyFilename] != 1 || names[exportAccountProofKeyFilename] != 1 {
		r.Violate("export", "keys-missing", "the archive does not contain exactly one of each account key")
		return
	}
	total := 0
	for _, gc := range groups {
		for _, c := range append(logCIDs(gc, true), logCIDs(gc, false)...) {
			total++
			if names[exportOrbitDBEntriesPrefix+c] != 1 {
				r.Violate("export", "entry-missing", "log entry %s is not in the archive exactly once", c)
				return
			}
		}
	}
	r.Logf("history: account ops=%d, joined group=%v, exported members=%d (entries %d)", nops, mm != nil, len(members), total)

	// every single-bit flip of (up to three) exported entries offered to the reader that restore uses for entry members:
	// bytes that do not hash to the identifier they are filed under are never accepted (enumeration; the sampled
	// "flip-entry" fault below takes the same alteration through the whole restore)
	swept := 0
	sweepLimit := 0
	if s.r.Choose(6) == 0 { // one case in six: the enumeration costs more than the rest of the case
		sweepLimit = 2
	}
	for _, m := range members {
		if !strings.HasPrefix(m.hdr.Name, exportOrbitDBEntriesPrefix) || swept >= sweepLimit {
			continue
		}
		swept++
		cidStr := strings.TrimPrefix(m.hdr.Name, exportOrbitDBEntriesPrefix)
		for bit := 0; bit < len(m.data)*8; bit++ {
			d := append([]byte(nil), m.data...)
			d[bit/8] ^= 1 << (bit % 8)
			tr := tar.NewReader(bytes.NewReader(c20write([]c20member{{hdr: tar.Header{Name: m.hdr.Name, Mode: 0o600, Size: int64(len(d))}, data: d}})))
			h, err := tr.Next()
			if err != nil {
				r.Infra("tar: %v", err)
				return
			}
			r.Fault("entry_bit_flip_enumerated")
			if _, err := readExportCBORNode(h.Size, cidStr, tr); err == nil {
				r.Violate("restore", "invalid-archive-accepted/flip-entry", "the entry reader of restore accepts entry %s with bit %d flipped (byte %d: %02x -> %02x): bytes that do not hash to the identifier", cidStr, bit, bit/8, m.data[bit/8], d[bit/8])
				return
			}
		}
	}
	if swept > 0 {
		r.Probe("entry_bit_flips_enumerated")
	}

	// mutation of the archive in transit
	fault := []string{"none", "none", "flip-entry", "flip-heads", "flip-key", "drop-entry", "drop-key", "dup-key", "dup-entry", "reorder", "truncate", "used-store", "drop-both-keys", "reencoded-entry"}[s.r.Choose(14)]
	mutated := archive
	pickMember := func(prefix string, exact bool) int {
		var idx []int
		for i, m := range members {
			if (exact && m.hdr.Name == prefix) || (!exact && strings.HasPrefix(m.hdr.Name, prefix)) {
				idx = append(idx, i)
			}
		}
		if len(idx) == 0 {
			return -1
		}
		return idx[s.r.Choose(len(idx))]
	}
	keyName := []string{exportAccountKeyFilename, exportAccountProofKeyFilename}[s.r.Choose(2)]
	mustFail := false
	switch fault {
	case "flip-entry":
		if i := pickMember(exportOrbitDBEntriesPrefix, false); i >= 0 {
			ms := append([]c20member(nil), members...)
			d := append([]byte(nil), ms[i].data...)
			d[s.r.Choose(len(d))] ^= 1 << s.r.Choose(8)
			ms[i].data = d
			mutated, mustFail = c20write(ms), true
		} else {
			fault = "none"
		}
	case "reencoded-entry":
		// the bytes of an entry replaced by ANOTHER encoding of the same object (CBOR 'undefined' 0xf7 where the
		// canonical form has 'null' 0xf6): they decode to the same entry but do not hash to the identifier
		fault = "none"
		if i := pickMember(exportOrbitDBEntriesPrefix, false); i >= 0 {
			raw := members[i].data
			if orig, err := cbornode.Decode(raw, mh.SHA2_256, -1); err == nil {
				for pos := range raw {
					if raw[pos] != 0xf6 {
						continue
					}
					d := append([]byte(nil), raw...)
					d[pos] = 0xf7
					if alt, err := cbornode.Decode(d, mh.SHA2_256, -1); err == nil && alt.Cid().Equals(orig.Cid()) {
						ms := append([]c20member(nil), members...)
						ms[i].data = d
						mutated, mustFail, fault = c20write(ms), true, "reencoded-entry"
						break
					}
				}
			}
		}
	case "flip-heads":
		if i := pickMember(exportOrbitDBHeadsPrefix, false); i >= 0 {
			ms := append([]c20member(nil), members...)
			d := append([]byte(nil), ms[i].data...)
			d[s.r.Choose(len(d))] ^= 1 << s.r.Choose(8)
			ms[i].data = d
			mutated = c20write(ms)
		} else {
			fault = "none"
		}
	case "flip-key":
		i := pickMember(keyName, true)
		ms := append([]c20member(nil), members...)
		d := append([]byte(nil), ms[i].data...)
		d[s.r.Choose(len(d))] ^= 1 << s.r.Choose(8)
		ms[i].data = d
		mutated = c20write(ms)
	case "drop-entry":
		if i := pickMember(exportOrbitDBEntriesPrefix, false); i >= 0 {
			ms := append(append([]c20member(nil), members[:i]...), members[i+1:]...)
			mutated = c20write(ms)
		} else {
			fault = "none"
		}
	case "drop-key":
		i := pickMember(keyName, true)
		ms := append(append([]c20member(nil), members[:i]...), members[i+1:]...)
		mutated, mustFail = c20write(ms), true
	case "drop-both-keys":
		var ms []c20member
		for _, m := range members {
			if m.hdr.Name != exportAccountKeyFilename && m.hdr.Name != exportAccountProofKeyFilename {
				ms = append(ms, m)
			}
		}
		mutated, mustFail = c20write(ms), true
	case "dup-key":
		i := pickMember(keyName, true)
		ms := append(append([]c20member(nil), members...), members[i])
		mutated, mustFail = c20write(ms), true
	case "dup-entry":
		if i := pickMember(exportOrbitDBEntriesPrefix, false); i >= 0 {
			ms := append(append([]c20member(nil), members...), members[i])
			mutated = c20write(ms)
		} else {
			fault = "none"
		}
	case "reorder":
		ms := append([]c20member(nil), members...)
		for i := len(ms) - 1; i > 0; i-- {
			j := s.r.Choose(i + 1)
			ms[i], ms[j] = ms[j], ms[i]
		}
		mutated = c20write(ms)
	case "truncate":
		mutated = archive[:s.r.Choose(len(archive))]
	case "used-store":
		mustFail = true
	}
	if fault != "none" {
		r.Fault("archive_" + fault)
	}
	r.Logf("archive fault: %s", fault)

	// restore on a fresh node without network
	B, err := s.addNode("B", 8)
	if err != nil {
		r.Infra("node B: %v", err)
		return
	}
	if fault == "used-store" {
		if _, err := B.ss.GetAccountPrivateKey(); err != nil { // the store already holds an account
			r.Infra("account B: %v", err)
			return
		}
	}
	done := make(chan error, 1)
	go func() {
		defer func() {
			if p := recover(); p != nil {
				done <- fmt.Errorf("PANIC: %v", p)
			}
		}()
		done <- RestoreAccountExport(B.ctx, bytes.NewReader(mutated), B.nn, B.odb, zap.NewNop())
	}()
	var rerr error
	finished := false
	for i := 0; i < 5 && !finished; i++ {
		s.wait()
		select {
		case rerr = <-done:
			finished = true
		default:
			time.Sleep(30 * time.Second) // let timeouts of the real code fire on the simulated clock
			r.SimTime(30 * time.Second)
		}
	}
	if !finished {
		s.wait()
		select {
		case rerr = <-done:
			finished = true
		default:
		}
	}
	if !finished {
		// permanent quiescence: the restore waits for something the archive does not contain
		r.Probe("restore_blocked_on_incomplete_archive")
		r.Logf("restore did not return (fault %s)", fault)
		if fault == "none" {
			r.Violate("restore", "restore-of-clean-archive-hangs", "restoring the unmodified archive never returns")
		}
		B.cancel()
		s.wait()
		return
	}
	if rerr != nil && strings.HasPrefix(rerr.Error(), "PANIC") {
		r.Violate("panic", "restore-panicked", "RestoreAccountExport panicked on an archive with fault %q: %v", fault, rerr)
		return
	}
	r.Logf("restore -> err=%v", rerr != nil)
	if mustFail {
		if rerr == nil {
			r.Violate("restore", "invalid-archive-accepted/"+fault, "an archive with fault %q (%s) was restored without error", fault, keyName)
			return
		}
		r.Probe("invalid_archive_rejected")
		return
	}
	if fault == "none" || fault == "reorder" || fault == "dup-entry" {
		if rerr != nil {
			if fault == "none" {
				r.Violate("restore", "clean-archive-refused", "the unmodified archive was refused: %v", rerr)
			}
			return
		}
	}
	if rerr != nil {
		return // a faulty archive may be refused
	}
	if fault != "none" && fault != "reorder" && fault != "dup-entry" {
		return // restored from a damaged archive: nothing more is required than not to panic
	}
	// same identity
	ask, aproof, _ := A.ss.ExportAccountKeysForBackup()
	bsk, bproof, err := B.ss.ExportAccountKeysForBackup()
	if err != nil || !bytes.Equal(ask, bsk) || !bytes.Equal(aproof, bproof) {
		r.Violate("identity", "restored-identity-differs", "the restored node does not hold the exported account keys (err=%v)", err)
		return
	}
	// same logs, heads and derived state for every exported group
	for _, gc := range groups {
		g := gc.Group()
		if g.GroupType == protocoltypes.GroupType_GroupTypeAccount {
			g, _, _ = B.ss.GetGroupForAccount()
		}
		bgc, err := B.openGroup(g)
		if err != nil {
			r.Violate("restore", "restored-group-does-not-open", "group does not open on the restored node: %v", err)
			return
		}
		s.wait()
		for _, meta := range []bool{true, false} {
			if a, b := logCIDs(gc, meta), logCIDs(bgc, meta); !sameStrings(a, b) {
				r.Violate("logs", "restored-log-differs", "restored %s log of group type %s has %d entries, the exported one %d", map[bool]string{true: "metadata", false: "message"}[meta], g.GroupType, len(b), len(a))
				return
			}
		}
		ha, hb := headCIDs(gc, true), headCIDs(bgc, true)
		if !sameStrings(ha, hb) {
			r.Violate("logs", "restored-heads-differ", "restored metadata heads differ")
			return
		}
		if da, db := metaDigest(gc.MetadataStore()), metaDigest(bgc.MetadataStore()); da != db {
			r.Violate("state", "restored-state-differs", "restored state of the %s group differs:\n  exported: %s\n  restored: %s", g.GroupType, da, db)
			return
		}
	}
	r.Probe("restored_and_compared")
	r.Nontrivial()
}

func headCIDs(gc *GroupContext, meta bool) []string {
	var out []string
	if meta {
		for _, e := range gc.MetadataStore().OpLog().Heads().Slice() {
			out = append(out, e.GetHash().String())
		}
	} else {
		for _, e := range gc.MessageStore().OpLog().Heads().Slice() {
			out = append(out, e.GetHash().String())
		}
	}
	for i := range out {
		for j := i + 1; j < len(out); j++ {
			if out[j] < out[i] {
				out[i], out[j] = out[j], out[i]
			}
		}
	}
	return out
}
