//go:build verif

package secretstore

import (
	"bytes"
	"context"
	"fmt"
	"google.golang.org/protobuf/encoding/protowire"
	"strings"
	"testing"

	"github.com/libp2p/go-libp2p/core/crypto"

	"berty.tech/weshnet/v2/internal/verifsim/disk"
	"berty.tech/weshnet/v2/internal/verifsim/kernel"
	"berty.tech/weshnet/v2/pkg/protocoltypes"
)

// C11: both sides derive the same keys (contact groups, member keys, imported accounts), whatever
// the order of first use, caching, restarts, loss of the recomputable key cache, and refused imports.

type c11store struct {
	p       *vparty
	account int // index of the account this store belongs to
	fresh   bool
}

func c11snapshot(p *vparty) string {
	var sb strings.Builder
	for _, k := range p.disk.Keys() {
		v, _ := p.disk.Peek(k)
		fmt.Fprintf(&sb, "%s=%x;", k, v)
	}
	return sb.String()
}

func TestVerifC11(t *testing.T) {
	kernel.InstallCrypto(t)
	kernel.Component("secret store key derivation (device_keystore_wrapper.go, keys_utils.go), export/import", "real")
	kernel.Component("datastore (restart, loss of the recomputable key cache)", "simulated (SimDisk)")
	kernel.Check(t, "C11", c11run)
}

func c11run(r *kernel.Run) {
	ctx := context.Background()
	_ = ctx
	kernel.SeedCrypto(r.Uint64("cryptoseed"))
	naccounts := r.Int("accounts", 2, 3)
	var stores []*c11store
	for a := 0; a < naccounts; a++ {
		p, _ := vnewParty(fmt.Sprintf("a%d", a), 2, 2)
		if _, err := p.accountPub(); err != nil { // the account exists from its first use on
			r.Infra("account: %v", err)
			return
		}
		if _, err := p.st.GetAccountProofPublicKey(); err != nil {
			r.Infra("proof key: %v", err)
			return
		}
		stores = append(stores, &c11store{p: p, account: a})
	}
	groups := make([]*protocoltypes.Group, 2)
	for i := range groups {
		groups[i], _, _ = protocoltypes.NewGroupMultiMember()
	}
	if r.Pick("colliding_group_pk", 3) == 2 {
		// unusual input: a multi-member group whose identifier equals the account key of one of the parties
		g0, _, _ := stores[0].p.st.GetGroupForAccount()
		groups[1] = &protocoltypes.Group{PublicKey: g0.PublicKey, Secret: groups[1].Secret, SecretSig: groups[1].SecretSig, GroupType: protocoltypes.GroupType_GroupTypeMultiMember}
		r.Fault("group_pk_equals_account_pk")
	}
	r.Logf("accounts=%d", naccounts)
	accPub := func(s *c11store) crypto.PubKey { pk, _ := s.p.accountPub(); return pk }
	nsteps := r.Int("steps", 3, 25)

	check := func(where string) bool {
		// contact groups: symmetric per pair of accounts, across all devices of both accounts; distinct pairs unrelated
		seen := map[string]string{}
		for _, x := range stores {
			for _, y := range stores {
				if x.account == y.account || x.fresh || y.fresh {
					continue
				}
				gx, err := x.p.st.GetGroupForContact(accPub(y))
				if err != nil {
					r.Violate("derive", "contact-group-error", "%s: GetGroupForContact failed: %v", where, err)
					return false
				}
				gy, err := y.p.st.GetGroupForContact(accPub(x))
				if err != nil {
					r.Violate("derive", "contact-group-error", "%s: GetGroupForContact failed: %v", where, err)
					return false
				}
				if !bytes.Equal(gx.PublicKey, gy.PublicKey) || !bytes.Equal(gx.Secret, gy.Secret) || gx.GroupType != protocoltypes.GroupType_GroupTypeContact {
					r.Violate("derive", "contact-group-asymmetric", "%s: accounts %d and %d derive different contact groups for each other (stores %s, %s)", where, x.account, y.account, x.p.name, y.p.name)
					return false
				}
				sx, _ := gx.GetSigningPubKey()
				sy, _ := gy.GetSigningPubKey()
				if !sx.Equals(sy) {
					r.Violate("derive", "contact-group-asymmetric", "%s: signing keys differ", where)
					return false
				}
				a, b := x.account, y.account
				if a > b {
					a, b = b, a
				}
				pair := fmt.Sprintf("%d-%d", a, b)
				id := fmt.Sprintf("%x", gx.PublicKey)
				if prev, ok := seen[id]; ok && prev != pair {
					r.Violate("derive", "contact-groups-collide", "%s: pairs %s and %s derive the same contact group", where, prev, pair)
					return false
				}
				seen[id] = pair
			}
		}
		// member keys: same for all devices of an account, device keys distinct; different accounts differ
		for gi, g := range groups {
			members := map[int]string{}
			devices := map[string]string{}
			for _, s := range stores {
				if s.fresh {
					continue
				}
				md, err := s.p.st.GetOwnMemberDeviceForGroup(g)
				if err != nil {
					r.Violate("derive", "member-device-error", "%s: GetOwnMemberDeviceForGroup failed: %v", where, err)
					return false
				}
				m, d := fmt.Sprintf("%x", vraw(md.Member())), fmt.Sprintf("%x", vraw(md.Device()))
				if prev, ok := members[s.account]; ok && prev != m {
					r.Violate("derive", "member-key-differs-between-devices", "%s: two devices of account %d derive different member keys for group %d", where, s.account, gi)
					return false
				}
				members[s.account] = m
				if prev, ok := devices[d]; ok && prev != s.p.name {
					r.Violate("derive", "device-key-shared", "%s: stores %s and %s have the same device key in group %d", where, prev, s.p.name, gi)
					return false
				}
				devices[d] = s.p.name
				ag, _, _ := s.p.st.GetGroupForAccount()
				if m == fmt.Sprintf("%x", ag.PublicKey) {
					r.Violate("derive", "member-key-is-account-key", "%s: the member key in a multi-member group equals the account key", where)
					return false
				}
			}
			for a, m := range members {
				for b, m2 := range members {
					if a != b && m == m2 {
						r.Violate("derive", "member-keys-collide", "%s: accounts %d and %d have the same member key in group %d", where, a, b, gi)
						return false
					}
				}
			}
		}
		// devices of one account agree on the account identity
		ids := map[int]string{}
		for _, s := range stores {
			if s.fresh {
				continue
			}
			ag, _, err := s.p.st.GetGroupForAccount()
			if err != nil {
				r.Violate("derive", "account-group-error", "%s: %v", where, err)
				return false
			}
			pp, _ := s.p.st.GetAccountProofPublicKey()
			id := fmt.Sprintf("%x/%x/%x", ag.PublicKey, ag.Secret, vraw(pp))
			if prev, ok := ids[s.account]; ok && prev != id {
				r.Violate("derive", "account-identity-differs", "%s: devices of account %d report different account identities", where, s.account)
				return false
			}
			ids[s.account] = id
		}
		return true
	}

	for st := 0; st < nsteps && !r.Failed(); st++ {
		si := r.Pick("store", len(stores))
		s := stores[si]
		switch a := r.Pick("action", 10); {
		case a <= 2: // first use of derived keys in a drawn order (touches the cache)
			o := stores[r.Pick("other", len(stores))]
			if s.fresh || o.fresh || o.account == s.account {
				continue
			}
			if r.Bool("contact_first") {
				_, _ = s.p.st.GetGroupForContact(accPub(o))
				_, _ = s.p.st.GetOwnMemberDeviceForGroup(groups[r.Pick("g", 2)])
			} else {
				_, _ = s.p.st.GetOwnMemberDeviceForGroup(groups[r.Pick("g", 2)])
				_, _ = s.p.st.GetGroupForContact(accPub(o))
			}
			r.Logf("use %s", s.p.name)
		case a == 3: // new device of an account: export from a store, import into a fresh one
			if s.fresh {
				continue
			}
			sk, proof, err := s.p.st.ExportAccountKeysForBackup()
			if err != nil {
				r.Violate("export", "export-failed", "ExportAccountKeysForBackup: %v", err)
				return
			}
			p, _ := vnewParty(fmt.Sprintf("a%d.%d", s.account, len(stores)), 2, 2)
			derivedFirst := false
			if err := p.st.ImportAccountKeys(sk, proof); err != nil {
				r.Violate("import", "import-into-fresh-store-refused", "ImportAccountKeys into a fresh store failed: %v", err)
				return
			}
			stores = append(stores, &c11store{p: p, account: s.account})
			r.Fault("import")
			r.Logf("import %s -> %s (derived first: %v)", s.p.name, p.name, derivedFirst)
		case a == 4: // import refused on a used store: nothing may change
			if s.fresh {
				continue
			}
			o := stores[r.Pick("other", len(stores))]
			sk, proof, err := o.p.st.ExportAccountKeysForBackup()
			if err != nil {
				continue
			}
			before := c11snapshot(s.p)
			if err := s.p.st.ImportAccountKeys(sk, proof); err == nil {
				r.Violate("import", "import-on-used-store-accepted", "ImportAccountKeys succeeded on a store that already holds an account")
				return
			}
			if c11snapshot(s.p) != before {
				r.Violate("import", "refused-import-changed-store", "a refused ImportAccountKeys modified the store")
				return
			}
			r.Fault("import_refused_used_store")
		case a == 5: // malformed imports into a fresh store: refused, store unchanged, later valid import still works
			p, _ := vnewParty("scratch", 2, 2)
			o := stores[r.Pick("other", len(stores))]
			if o.fresh {
				continue
			}
			sk, proof, _ := o.p.st.ExportAccountKeysForBackup()
			bad := r.Pick("malformed", 8)
			var a1, a2 []byte
			switch bad {
			case 5: // well-formed keys, but the store is partially used: it only ever derived a member key (proof key exists)
				if _, err := p.st.GetOwnMemberDeviceForGroup(groups[0]); err != nil {
					r.Infra("member device: %v", err)
					return
				}
				a1, a2 = sk, proof
			case 0: // the two keys equal
				a1, a2 = sk, sk
			case 6: // the two keys equal, the second serialised with an unknown protobuf field appended
				a1, a2 = sk, append(append([]byte(nil), sk...), 0x78, 0x01)
			case 7: // the two keys equal, the second in the 96-byte form of Ed25519 private keys (private ‖ public ‖ public)
				k, err := crypto.UnmarshalPrivateKey(sk)
				if err != nil {
					r.Infra("unmarshal: %v", err)
					return
				}
				raw, _ := k.Raw()
				data := append(append([]byte(nil), raw...), raw[32:]...)
				b := protowire.AppendTag(nil, 1, protowire.VarintType)
				b = protowire.AppendVarint(b, 1) // KeyType Ed25519
				b = protowire.AppendTag(b, 2, protowire.BytesType)
				b = protowire.AppendBytes(b, data)
				if k2, err := crypto.UnmarshalPrivateKey(b); err != nil || !k2.Equals(k) {
					r.Probe("legacy_key_form_not_accepted_by_libp2p")
					a1, a2 = sk, sk
				} else {
					a1, a2 = sk, b
				}
			case 1: // non-Ed25519 key
				k, _, _ := crypto.GenerateSecp256k1Key(nil)
				kb, _ := crypto.MarshalPrivateKey(k)
				a1, a2 = kb, proof
			case 2: // garbage
				a1, a2 = kernel.DetBytes(uint64(st), 40), proof
			case 3: // truncated
				a1, a2 = sk, proof[:len(proof)/2]
			default: // empty
				a1, a2 = nil, proof
			}
			before := c11snapshot(p)
			if err := p.st.ImportAccountKeys(a1, a2); err == nil {
				r.Violate("import", "malformed-import-accepted", "ImportAccountKeys accepted malformed keys (case %d)", bad)
				return
			}
			if c11snapshot(p) != before {
				r.Violate("import", "refused-import-changed-store", "a refused ImportAccountKeys (case %d) modified the store", bad)
				return
			}
			if bad == 5 {
				r.Fault("import_refused_partially_used_store")
				break // that store keeps its own (partial) identity; it is not added to the population
			}
			if err := p.st.ImportAccountKeys(sk, proof); err != nil {
				r.Violate("import", "import-into-fresh-store-refused", "a valid import after a refused one failed: %v", err)
				return
			}
			stores = append(stores, &c11store{p: p, account: o.account})
			p.name = fmt.Sprintf("a%d.%d", o.account, len(stores))
			r.Fault(fmt.Sprintf("import_refused_malformed_%d", bad))
		case a == 6: // restart
			if err := s.p.restart(); err != nil {
				r.Infra("restart: %v", err)
				return
			}
			r.Fault("restart")
			r.Logf("restart %s", s.p.name)
		case a == 7: // the recomputable key cache is lost (contact-group and member keys are derived, not stored secrets)
			nk := s.p.disk.DropKeys(func(k string) bool {
				// names of the recomputable cache entries as literals: the harness must not depend on identifiers of the code under test
				return strings.Contains(k, "/contactGroupSK_") || strings.Contains(k, "/memberSK_")
			})
			if nk > 0 {
				r.Fault("key_cache_loss")
				r.Logf("cache loss %s (%d keys)", s.p.name, nk)
			}
		default:
		}
		if !check(fmt.Sprintf("after step %d", st)) {
			return
		}
		r.Step()
	}
	_ = disk.New
}
