//go:build verif

package secretstore

import (
	"bytes"
	"context"
	"fmt"
	"testing"

	"berty.tech/weshnet/v2/internal/verifsim/kernel"
	"berty.tech/weshnet/v2/pkg/protocoltypes"
)

// C05 (a): a chain-key announcement opens only for the designated (recipient member, group, sender)
// and to exactly the sender's chain key and counter at sealing time; any alteration is rejected.
// Multi-party session: sender S, right recipient R, other member C, a second group with the same
// parties; announcements are produced at drawn points of S's message history. The completeness half
// (every member ends up with every chain key) is part (b), in the root package harness.

func TestVerifC05a(t *testing.T) {
	kernel.InstallCrypto(t)
	kernel.Component("secret store GetShareableChainKey / RegisterChainKey / chain_key.go", "real")
	kernel.Component("datastore", "simulated (SimDisk)")
	kernel.Component("wrong recipients, wrong groups, wrong claimed senders, corrupted ciphertexts", "simulated (enumerated by the harness)")
	kernel.Check(t, "C05", c05run)
}

func c05run(r *kernel.Run) {
	ctx := context.Background()
	kernel.SeedCrypto(r.Uint64("cryptoseed"))
	kind := r.Pick("grouptype", 3)
	w := r.Int("window", 1, 4)
	S, _ := vnewParty("S", w, 2)
	R, _ := vnewParty("R", w, 2)
	C, _ := vnewParty("C", w, 2)
	g, err := vgroup(kind, S, R)
	if err != nil {
		r.Infra("group: %v", err)
		return
	}
	g2, _, _ := protocoltypes.NewGroupMultiMember()
	rmd, _ := R.md(g)
	smd, _ := S.md(g)
	cmdv, _ := C.md(g2)
	// S's message history with announcements taken at drawn counters
	n := r.Int("nmsgs", 0, 8)
	annAt := r.Int("ann_at", 0, n)
	type sealed struct {
		counter uint64
		env     []byte
		tag     []byte
	}
	var msgs []sealed
	var ann []byte
	if _, err := S.st.GetShareableChainKey(ctx, g, rmd.Member()); err != nil {
		r.Infra("chain key: %v", err)
		return
	}
	for i := 0; i <= n; i++ {
		if i == annAt {
			ann, err = S.st.GetShareableChainKey(ctx, g, rmd.Member())
			if err != nil {
				r.Infra("ann: %v", err)
				return
			}
		}
		if i == n {
			break
		}
		tag := []byte(fmt.Sprintf("m%d", i+1))
		env, err := S.st.SealEnvelope(ctx, g, vpayload("", tag))
		if err != nil {
			r.Infra("seal: %v", err)
			return
		}
		msgs = append(msgs, sealed{uint64(i + 1), env, tag})
	}
	r.Logf("grouptype=%d window=%d messages=%d announcement at counter %d (%d bytes)", kind, w, n, annAt, len(ann))

	fresh := func(p *vparty) *vparty {
		q, _ := vnewPartyOn(p.name, p.disk.Clone(), p.window, p.oosWin)
		return q
	}
	// 1. the right recipient registers it and exactly the subsequent messages become openable
	{
		q := fresh(R)
		if err := q.st.RegisterChainKey(ctx, g, smd.Device(), ann); err != nil {
			r.Violate("recipient", "right-recipient-refused", "the designated recipient cannot register the announcement: %v", err)
			return
		}
		mod := &c02model{w: uint64(w), opened: map[string]bool{}}
		mod.register(uint64(annAt))
		for _, m := range msgs {
			want := mod.open(m.counter, vcid(m.env).String())
			_, pl, err := vopen(ctx, q, g, m.env, vcid(m.env))
			ok := err == nil
			if want && !ok {
				r.Violate("exact", "subsequent-message-not-openable", "announcement taken at counter %d: message counter %d must be openable after registration: %v", annAt, m.counter, err)
				return
			}
			if ok && m.counter <= uint64(annAt) {
				r.Violate("exact", "earlier-message-openable", "announcement taken at counter %d makes the earlier message counter %d openable", annAt, m.counter)
				return
			}
			if ok && !bytes.Equal(pl, m.tag) {
				r.Violate("exact", "wrong-payload", "message %d opened to another payload", m.counter)
				return
			}
			if ok && !want {
				mod.forceOpen(m.counter, vcid(m.env).String())
			}
		}
		gpk, _ := g.GetPubKey()
		if !q.st.IsChainKeyKnownForDevice(ctx, gpk, smd.Device()) {
			r.Violate("recipient", "chain-key-not-known-after-registration", "IsChainKeyKnownForDevice is false after a successful registration")
			return
		}
		r.Probe("right_recipient_registered")
	}
	// 2. wrong parties: nobody else can open it, in no other group, under no other claimed sender
	wrong := func(name string, p *vparty, gg *protocoltypes.Group, senderOf *vparty, senderGroup *protocoltypes.Group) bool {
		q := fresh(p)
		sd := mustDev(senderOf, senderGroup)
		err := q.st.RegisterChainKey(ctx, gg, sd, ann)
		r.Step()
		r.Fault("wrong_party")
		if err != nil {
			return true
		}
		// a registration that "succeeded" must not have made S's messages openable for that party
		for _, m := range msgs {
			if _, _, err := vopen(ctx, q, gg, m.env, vcid(m.env)); err == nil {
				r.Violate("secrecy", "wrong-party-opened/"+name, "%s registered the announcement and opened message counter %d", name, m.counter)
				return false
			}
		}
		gpk, _ := gg.GetPubKey()
		if q.st.IsChainKeyKnownForDevice(ctx, gpk, sd) {
			r.Violate("secrecy", "wrong-party-registered/"+name, "%s: RegisterChainKey accepted an announcement that was not sealed for this (recipient, group, sender)", name)
			return false
		}
		return true
	}
	if !wrong("another-party-in-the-same-group", C, g, S, g) {
		return
	}
	if !wrong("right-recipient-in-another-group", R, g2, S, g2) {
		return
	}
	if !wrong("right-recipient-other-claimed-sender", R, g, C, g2) {
		return
	}
	_ = cmdv
	if kind != 0 {
		// contact and account groups use the account key as member key and one device key for all of them: the
		// same (sender device, recipient member) pair exists in another group, only the group binding separates them
		cpk, _ := C.accountPub()
		g3, err := R.st.GetGroupForContact(cpk)
		if err != nil {
			r.Infra("contact group: %v", err)
			return
		}
		r.Probe("same_keys_other_group")
		if !wrong("right-recipient-same-keys-other-group", R, g3, S, g) {
			return
		}
	}
	// 3. every single-bit flip of the ciphertext is rejected by the right recipient
	for bit := 0; bit < len(ann)*8; bit++ {
		a2 := append([]byte(nil), ann...)
		a2[bit/8] ^= 1 << (bit % 8)
		q := fresh(R)
		r.Fault("bit_flip")
		r.Step()
		if err := q.st.RegisterChainKey(ctx, g, smd.Device(), a2); err == nil {
			gpk, _ := g.GetPubKey()
			if q.st.IsChainKeyKnownForDevice(ctx, gpk, smd.Device()) {
				r.Violate("integrity", "altered-announcement-accepted", "announcement with bit %d flipped was registered", bit)
				return
			}
		}
	}
	// 4. truncated and empty announcements are rejected without panicking
	for _, a2 := range [][]byte{nil, {}, ann[:len(ann)/2], ann[:1], append(append([]byte{}, ann...), 0)} {
		q := fresh(R)
		r.Fault("truncation")
		if err := q.st.RegisterChainKey(ctx, g, smd.Device(), a2); err == nil {
			r.Violate("integrity", "altered-announcement-accepted", "a truncated/extended announcement (%d bytes) was registered", len(a2))
			return
		}
	}
	// 5. the same alterations offered to a recipient that ALREADY registered the genuine announcement of that sender:
	// they are rejected all the same (an already known sender is no reason to wave an altered announcement through),
	// and the genuine messages still open
	{
		q := fresh(R)
		if err := q.st.RegisterChainKey(ctx, g, smd.Device(), ann); err != nil {
			r.Infra("register: %v", err)
			return
		}
		var alts [][]byte
		for bit := 0; bit < len(ann)*8; bit += 7 {
			a2 := append([]byte(nil), ann...)
			a2[bit/8] ^= 1 << (bit % 8)
			alts = append(alts, a2)
		}
		alts = append(alts, nil, []byte{}, ann[:len(ann)/2], append(append([]byte{}, ann...), 0))
		for _, a2 := range alts {
			r.Fault("altered_announcement_to_registered_recipient")
			r.Step()
			if err := q.st.RegisterChainKey(ctx, g, smd.Device(), a2); err == nil {
				r.Violate("integrity", "altered-announcement-accepted", "a recipient that already knows the sender accepts (no error) an altered announcement of %d bytes", len(a2))
				return
			}
		}
		// the wrong group / wrong claimed sender, for senders the recipient already knows in those groups
		if err := q.st.RegisterChainKey(ctx, g2, mustDev(S, g2), ann); err == nil {
			gpk2, _ := g2.GetPubKey()
			if !fresh(R).st.IsChainKeyKnownForDevice(ctx, gpk2, mustDev(S, g2)) && q.st.IsChainKeyKnownForDevice(ctx, gpk2, mustDev(S, g2)) {
				r.Violate("secrecy", "wrong-party-registered/registered-recipient-other-group", "an announcement sealed for another group was registered")
				return
			}
		}
		mod := &c02model{w: uint64(w), opened: map[string]bool{}}
		mod.register(uint64(annAt))
		for _, m := range msgs {
			if want := mod.open(m.counter, vcid(m.env).String()); want {
				if _, pl, err := vopen(ctx, q, g, m.env, vcid(m.env)); err != nil || !bytes.Equal(pl, m.tag) {
					r.Violate("exact", "subsequent-message-not-openable", "after rejected altered announcements message counter %d no longer opens: %v", m.counter, err)
					return
				}
			}
		}
		r.Probe("alterations_to_registered_recipient")
	}
	r.Nontrivial()
}
