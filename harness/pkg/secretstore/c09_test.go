//go:build verif

package secretstore

import (
	"bytes"
	"context"
	"fmt"
	"sort"
	"strings"
	"sync"
	"testing"

	"google.golang.org/protobuf/proto"

	"berty.tech/weshnet/v2/internal/verifsim/disk"
	"berty.tech/weshnet/v2/internal/verifsim/kernel"
	"berty.tech/weshnet/v2/internal/verifsim/sched"
	"berty.tech/weshnet/v2/pkg/protocoltypes"
)

// C09: concurrent sends never reuse a counter, key or nonce; the stored chain key only moves
// forward. pkg/secretstore is instrumented at check time (scheduling points at every lock/unlock)
// and every SimDisk read/write is a scheduling point too; N sender tasks x M SealEnvelope calls plus
// concurrent readers run under the seeded scheduler.

func TestVerifC09(t *testing.T) {
	kernel.InstallCrypto(t)
	kernel.Component("secret store (SealEnvelope, chain key update)", "real (instrumented copy of the working tree)")
	kernel.Component("datastore", "simulated (SimDisk; every read/write is a scheduling point)")
	kernel.Component("goroutine scheduling", "simulated (seeded cooperative scheduler in a synctest bubble)")
	kernel.Check(t, "C09", func(r *kernel.Run) {
		strategy := r.Pick("strategy", 3)
		seed := r.Uint64("cryptoseed")
		r.Words(1024)
		res := sched.Bubble(t, func() { c09run(r, strategy, seed) })
		if res != "" && !r.Failed() {
			r.Infra("bubble panicked: %s", res)
		}
	})
}

func c09run(r *kernel.Run, strategy int, seed uint64) {
	ctx := context.Background()
	kernel.SeedCrypto(seed)
	kind := r.Choose(3)
	ntasks := 2 + r.Choose(3)
	nmsgs := 1 + r.Choose(4)
	ngroups := 1 + r.Choose(2)
	withReader := r.Choose(2) == 1
	S, err := vnewParty("S", 3, 2)
	if err != nil {
		r.Infra("%v", err)
		return
	}
	R, err := vnewParty("R", 100, 2)
	if err != nil {
		r.Infra("%v", err)
		return
	}
	var groups []*protocoltypes.Group
	for gi := 0; gi < ngroups; gi++ {
		k := kind
		if gi > 0 {
			k = 0
		}
		if k == 2 {
			// account group: R becomes a second device of S's account (only possible while R is fresh)
			g, err := vgroup(2, S, R)
			if err != nil {
				r.Infra("group: %v", err)
				return
			}
			groups = append(groups, g)
			continue
		}
		g, err := vgroup(k, S, R)
		if err != nil {
			r.Infra("group: %v", err)
			return
		}
		groups = append(groups, g)
	}
	// sender announces (creates its chain key) and seals a drawn number of warm-up messages; the receiver registers.
	// In lazy mode the chain key does not exist yet when the concurrent tasks start: every sender task first asks
	// for a shareable chain key itself, so the creation of the chain key races with the other tasks.
	lazy := r.Choose(3) == 2
	base := make([]uint64, ngroups)
	firstAnn := make([][]byte, ngroups)
	for gi, g := range groups {
		if lazy {
			continue
		}
		rmd, _ := R.md(g)
		smd, _ := S.md(g)
		ann, err := S.st.GetShareableChainKey(ctx, g, rmd.Member())
		if err != nil {
			r.Infra("ann: %v", err)
			return
		}
		if err := R.st.RegisterChainKey(ctx, g, smd.Device(), ann); err != nil {
			r.Infra("register: %v", err)
			return
		}
		warm := r.Choose(3)
		for i := 0; i < warm; i++ {
			if _, err := S.st.SealEnvelope(ctx, g, vpayload("warm", nil)); err != nil {
				r.Infra("warm seal: %v", err)
				return
			}
		}
		base[gi] = uint64(warm)
	}
	r.Logf("concurrent sends: grouptype=%d tasks=%d msgs/task=%d groups=%d reader=%v base=%v lazy=%v strategy=%d", kind, ntasks, nmsgs, ngroups, withReader, base, lazy, strategy)

	// chain-key writes observed at the disk seam: counters per (group, device) key must never decrease
	var hmu sync.Mutex
	lastCounter := map[string]uint64{}
	var regress string
	s := sched.New(r.Choose, strategy, func(f string, a ...any) { r.Logf(f, a...); r.Step() })
	S.disk.Hook = func(op, key string) {
		sched.Point("disk:" + op + ":" + disk.KeyClass(key))
	}
	type sealed struct {
		gi  int
		env []byte
		tag []byte
	}
	var out []sealed
	groupsShared := groups
	ownValues := r.Choose(2) == 0
	if ownValues {
		r.Probe("senders_hold_their_own_group_values")
	}
	for tk := 0; tk < ntasks; tk++ {
		tk := tk
		// every caller holds its own Group value (a group is opened, listed and decoded in many places of an
		// application; nothing guarantees that two senders share one pointer)
		groups := groups
		if ownValues {
			groups = make([]*protocoltypes.Group, len(groups))
			for gi := range groups {
				groups[gi] = proto.Clone(groupsShared[gi]).(*protocoltypes.Group)
			}
		}
		s.Go(fmt.Sprintf("sender%d", tk), func() {
			if lazy {
				for gi, g := range groups {
					rmd, _ := R.md(g)
					ann, err := S.st.GetShareableChainKey(ctx, g, rmd.Member())
					hmu.Lock()
					if err != nil {
						regress = fmt.Sprintf("GetShareableChainKey failed: %v", err)
					} else if firstAnn[gi] == nil {
						firstAnn[gi] = ann // the first announcement handed out (taken before any message of that group was sealed)
					}
					hmu.Unlock()
				}
			}
			for i := 0; i < nmsgs; i++ {
				gi := (tk + i) % ngroups
				tag := []byte(fmt.Sprintf("t%d-m%d", tk, i))
				env, err := S.st.SealEnvelope(ctx, groups[gi], vpayload("", tag))
				if err != nil {
					hmu.Lock()
					regress = fmt.Sprintf("SealEnvelope failed: %v", err)
					hmu.Unlock()
					return
				}
				hmu.Lock()
				out = append(out, sealed{gi, env, tag})
				hmu.Unlock()
			}
		})
	}
	if withReader {
		s.Go("reader", func() {
			for _, g := range groups {
				rmd, _ := R.md(g)
				_, _ = S.st.GetShareableChainKey(ctx, g, rmd.Member())
				gpk, _ := g.GetPubKey()
				smd, _ := S.md(g)
				_ = S.st.IsChainKeyKnownForDevice(ctx, gpk, smd.Device())
			}
		})
	}
	// monitor of chain-key writes: compare after every step using the mutation log
	seenMut := 0
	checkWrites := func() {
		log := S.disk.Log()
		for ; seenMut < len(log); seenMut++ {
			for _, k := range log[seenMut].Keys {
				if !strings.HasPrefix(k, "/"+dsNamespaceChainKeyForDeviceOnGroup+"/") {
					continue
				}
				v, ok := S.disk.Peek(k)
				if !ok {
					continue
				}
				ck := &protocoltypes.DeviceChainKey{}
				if proto.Unmarshal(v, ck) != nil {
					continue
				}
				if prev, ok := lastCounter[k]; ok && ck.Counter < prev {
					regress = fmt.Sprintf("stored chain-key counter went from %d to %d", prev, ck.Counter)
				}
				lastCounter[k] = ck.Counter
			}
		}
	}
	for s.Steps < 4000 && s.Step() {
		checkWrites()
	}
	checkWrites()
	st := s.Status()
	if s.Preemptions > 0 {
		r.Nontrivial()
		r.Fault("preemption")
	}
	for _, t := range st.LockBlocked {
		r.Violate("deadlock", "secretstore-deadlock", "task %s blocked at %s on a lock held by %s", t.Label, t.Site, s.Holder(t))
	}
	for _, t := range st.RealBlocked {
		r.Violate("stuck", "task-stuck", "task %s is blocked in %s", t.Label, t.BlockedIn())
	}
	S.disk.Hook = nil
	s.Abort()
	if r.Failed() {
		return
	}
	if regress != "" {
		r.Violate("monotone", "chainkey-regressed-or-seal-failed", "%s", regress)
		return
	}
	if len(out) != ntasks*nmsgs {
		r.Violate("count", "missing-envelopes", "%d envelopes returned, %d expected", len(out), ntasks*nmsgs)
		return
	}
	if lazy {
		r.Probe("lazy_chain_key_creation")
		for gi, g := range groups {
			smd, _ := S.md(g)
			if firstAnn[gi] == nil {
				r.Violate("count", "no-announcement", "no announcement was returned for group %d", gi)
				return
			}
			if err := R.st.RegisterChainKey(ctx, g, smd.Device(), firstAnn[gi]); err != nil {
				r.Violate("open", "announcement-rejected", "the receiver cannot register the first announcement handed out: %v", err)
				return
			}
		}
	}
	// counters: pairwise distinct, gap-free {base+1..base+n} per group; every envelope opens at the receiver
	perGroup := map[int][]uint64{}
	for _, e := range out {
		g := groups[e.gi]
		_, h, err := R.st.OpenEnvelopeHeaders(e.env, g)
		if err != nil {
			r.Violate("open", "headers-unreadable", "headers of a returned envelope do not open: %v", err)
			return
		}
		perGroup[e.gi] = append(perGroup[e.gi], h.Counter)
	}
	for gi := 0; gi < ngroups; gi++ {
		cs := perGroup[gi]
		sort.Slice(cs, func(i, j int) bool { return cs[i] < cs[j] })
		for i, c := range cs {
			if c != base[gi]+uint64(i)+1 {
				r.Violate("counters", "counter-reuse-or-gap", "group %d: counters of the returned envelopes are %v, expected the gap-free sequence starting at %d", gi, cs, base[gi]+1)
				return
			}
		}
	}
	// open in increasing counter order (the receiver window is 100, so order does not matter here)
	for _, e := range out {
		g := groups[e.gi]
		_, pl, err := vopen(ctx, R, g, e.env, vcid(e.env))
		if err != nil {
			r.Violate("open", "envelope-does-not-open", "an envelope returned by a concurrent SealEnvelope does not open at the receiver: %v", err)
			return
		}
		if !bytes.Equal(pl, e.tag) {
			r.Violate("open", "wrong-payload", "envelope opened to a different payload")
			return
		}
	}
	r.Probe("all_envelopes_opened")
}
