//go:build verif

package secretstore

import (
	"context"
	"fmt"

	"github.com/ipfs/go-cid"
	"github.com/libp2p/go-libp2p/core/crypto"
	mh "github.com/multiformats/go-multihash"
	"google.golang.org/protobuf/proto"

	"berty.tech/weshnet/v2/internal/verifsim/disk"
	"berty.tech/weshnet/v2/pkg/protocoltypes"
)

// vparty is one device: a real secret store on a SimDisk. Restart = a new secretStore value on the
// same (or a snapshot of the) disk.
type vparty struct {
	name    string
	disk    *disk.Disk
	st      *secretStore
	window  int
	oosWin  int
	account crypto.PubKey
}

func vnewPartyOn(name string, d *disk.Disk, window, oosWin int) (*vparty, error) {
	st, err := newSecretStore(d, &NewSecretStoreOptions{PreComputedKeysCount: window, PrecomputeOutOfStoreGroupRefsCount: oosWin})
	if err != nil {
		return nil, err
	}
	return &vparty{name: name, disk: d, st: st, window: window, oosWin: oosWin}, nil
}

func vnewParty(name string, window, oosWin int) (*vparty, error) {
	return vnewPartyOn(name, disk.New(), window, oosWin)
}

func (p *vparty) restart() error {
	st, err := newSecretStore(p.disk, &NewSecretStoreOptions{PreComputedKeysCount: p.window, PrecomputeOutOfStoreGroupRefsCount: p.oosWin})
	if err != nil {
		return err
	}
	p.st = st
	return nil
}

func (p *vparty) accountPub() (crypto.PubKey, error) {
	g, _, err := p.st.GetGroupForAccount()
	if err != nil {
		return nil, err
	}
	return g.GetPubKey()
}

func (p *vparty) md(g *protocoltypes.Group) (OwnMemberDevice, error) {
	return p.st.GetOwnMemberDeviceForGroup(g)
}

// vcid is the content identifier a log entry carrying these envelope bytes would have: equal bytes
// (a re-delivered entry) give equal CIDs.
func vcid(env []byte) cid.Cid {
	h, _ := mh.Sum(env, mh.SHA2_256, -1)
	return cid.NewCidV1(cid.Raw, h)
}

func vpayload(tag string, extra []byte) []byte {
	b, _ := proto.Marshal(&protocoltypes.EncryptedMessage{Plaintext: append([]byte(tag), extra...)})
	return b
}

// vopen is the log path of a receiver: open headers under the group secret, then the payload under
// the sender's precomputed message key (same sequence as store_message.go).
func vopen(ctx context.Context, p *vparty, g *protocoltypes.Group, env []byte, id cid.Cid) (*protocoltypes.MessageHeaders, []byte, error) {
	gpk, err := g.GetPubKey()
	if err != nil {
		return nil, nil, err
	}
	own, err := p.md(g)
	if err != nil {
		return nil, nil, err
	}
	e, h, err := p.st.OpenEnvelopeHeaders(env, g)
	if err != nil {
		return nil, nil, fmt.Errorf("headers: %w", err)
	}
	msg, err := p.st.OpenEnvelopePayload(ctx, e, h, gpk, own.Device(), id)
	if err != nil {
		return h, nil, fmt.Errorf("payload: %w", err)
	}
	return h, msg.Plaintext, nil
}

func vraw(k crypto.PubKey) []byte {
	b, _ := k.Raw()
	return b
}

// vgroup builds a group of the requested kind shared by parties a and b:
// 0 multi-member, 1 contact (a<->b), 2 account (b becomes a second device of a's account).
// For kind 2 b must be a fresh party: a's account keys are imported into it.
func vgroup(kind int, a, b *vparty) (*protocoltypes.Group, error) {
	switch kind {
	case 0:
		g, _, err := protocoltypes.NewGroupMultiMember()
		return g, err
	case 1:
		bpk, err := b.accountPub()
		if err != nil {
			return nil, err
		}
		ga, err := a.st.GetGroupForContact(bpk)
		if err != nil {
			return nil, err
		}
		return ga, nil
	default:
		sk, proof, err := a.st.ExportAccountKeysForBackup()
		if err != nil {
			return nil, err
		}
		if err := b.st.ImportAccountKeys(sk, proof); err != nil {
			return nil, err
		}
		g, _, err := a.st.GetGroupForAccount()
		return g, err
	}
}
