//go:build verif

package secretstore

import (
	"bytes"
	"context"
	"fmt"
	"testing"

	ds "github.com/ipfs/go-datastore"
	"github.com/libp2p/go-libp2p/core/crypto"

	"berty.tech/weshnet/v2/internal/verifsim/disk"
	"berty.tech/weshnet/v2/internal/verifsim/kernel"
	"berty.tech/weshnet/v2/pkg/protocoltypes"
)

// C10: a crash at any datastore mutation leaves the secret store consistent and usable.
// One simulated run = one workload executed once on SimDisks while recording, per operation, the
// range of mutation indices it produced; then EVERY mutation index of the sender's and of the
// receiver's disk is taken as a crash point: the device restarts on Snapshot(k) (first k mutations
// survive, batches atomic) and the four recovery clauses of the property are evaluated.

// nonBatching hides the batching feature of the disk so that the non-batched write path of the
// secret store (one mutation per precomputed key) is exercised as well (per-run knob).
type nonBatching struct{ ds.Datastore }

type c10op struct {
	kind   string // keys, ann, seal, register, open
	party  string // S or R
	arg    int
	a, b   int // mutation index range [a,b) on that party's disk
	ok     bool
	result []byte
}

type c10keys struct {
	acc, proof, dev, mmMember, mmDevice, contact []byte
}

func c10readKeys(p *vparty, g *protocoltypes.Group, other crypto.PubKey) (*c10keys, error) {
	k := &c10keys{}
	ag, amd, err := p.st.GetGroupForAccount()
	if err != nil {
		return nil, err
	}
	k.acc = ag.PublicKey
	k.dev = vraw(amd.Device())
	pp, err := p.st.GetAccountProofPublicKey()
	if err != nil {
		return nil, err
	}
	k.proof = vraw(pp)
	if g != nil && g.GroupType == protocoltypes.GroupType_GroupTypeMultiMember {
		md, err := p.st.GetOwnMemberDeviceForGroup(g)
		if err != nil {
			return nil, err
		}
		k.mmMember, k.mmDevice = vraw(md.Member()), vraw(md.Device())
	}
	if other != nil {
		cg, err := p.st.GetGroupForContact(other)
		if err != nil {
			return nil, err
		}
		k.contact = append(append([]byte{}, cg.PublicKey...), cg.Secret...)
	}
	return k, nil
}

func (k *c10keys) diff(o *c10keys) string {
	switch {
	case !bytes.Equal(k.acc, o.acc):
		return "account key"
	case !bytes.Equal(k.proof, o.proof):
		return "account proof key"
	case !bytes.Equal(k.dev, o.dev):
		return "device key"
	case !bytes.Equal(k.mmMember, o.mmMember):
		return "member key of the multi-member group"
	case !bytes.Equal(k.mmDevice, o.mmDevice):
		return "device key of the multi-member group"
	case !bytes.Equal(k.contact, o.contact):
		return "contact group"
	}
	return ""
}

func TestVerifC10(t *testing.T) {
	kernel.InstallCrypto(t)
	kernel.Component("secret store (seal, open, register, named keys)", "real")
	kernel.Component("datastore + crash/restart", "simulated (SimDisk mutation log, Snapshot(k))")
	kernel.Check(t, "C10", c10run)
}

func c10mk(d *disk.Disk, batching bool, w int) (*vparty, error) {
	var store ds.Datastore = d
	if !batching {
		store = nonBatching{d}
	}
	st, err := newSecretStore(store, &NewSecretStoreOptions{PreComputedKeysCount: w, PrecomputeOutOfStoreGroupRefsCount: 2})
	if err != nil {
		return nil, err
	}
	return &vparty{disk: d, st: st, window: w, oosWin: 2}, nil
}

func c10run(r *kernel.Run) {
	ctx := context.Background()
	kernel.SeedCrypto(r.Uint64("cryptoseed"))
	w := r.Int("window", 1, 4)
	batching := r.Pick("nonbatching", 3) != 2
	kind := r.Pick("grouptype", 2) // 0 multi-member, 1 contact
	S, err := c10mk(disk.New(), batching, w)
	if err != nil {
		r.Infra("%v", err)
		return
	}
	R, err := c10mk(disk.New(), batching, w)
	if err != nil {
		r.Infra("%v", err)
		return
	}
	r.Logf("window=%d batching=%v grouptype=%d", w, batching, kind)

	var ops []c10op
	rec := func(p *vparty, party, kind string, arg int, f func() ([]byte, error)) *c10op {
		a := p.disk.Mutations()
		res, err := f()
		ops = append(ops, c10op{kind: kind, party: party, arg: arg, a: a, b: p.disk.Mutations(), ok: err == nil, result: res})
		r.Logf("op %d %s.%s(%d) mutations[%d,%d) ok=%v", len(ops)-1, party, kind, arg, a, p.disk.Mutations(), err == nil)
		return &ops[len(ops)-1]
	}

	// first reads of the named keys are operations of the workload (get-or-generate)
	var g *protocoltypes.Group
	var sAcc, rAcc crypto.PubKey
	var sKeys, rKeys *c10keys
	rec(S, "S", "keys0", 0, func() ([]byte, error) { var e error; sAcc, e = S.accountPub(); return nil, e })
	rec(R, "R", "keys0", 0, func() ([]byte, error) { var e error; rAcc, e = R.accountPub(); return nil, e })
	if sAcc == nil || rAcc == nil {
		r.Infra("account keys")
		return
	}
	if kind == 0 {
		g, _, err = protocoltypes.NewGroupMultiMember()
	} else {
		g, err = S.st.GetGroupForContact(rAcc) // mutates S's disk (cached ECDH key); folded into the next op range
	}
	if err != nil {
		r.Infra("group: %v", err)
		return
	}
	rec(S, "S", "keys", 0, func() ([]byte, error) { var e error; sKeys, e = c10readKeys(S, g, rAcc); return nil, e })
	rec(R, "R", "keys", 0, func() ([]byte, error) { var e error; rKeys, e = c10readKeys(R, g, sAcc); return nil, e })
	if sKeys == nil || rKeys == nil {
		r.Infra("keys")
		return
	}
	rmd, _ := R.md(g)
	smd, _ := S.md(g)
	gpk, _ := g.GetPubKey()

	type msg struct {
		counter uint64
		env     []byte
		tag     []byte
		sealOp  int
	}
	var msgs []msg
	var anns [][]byte
	nsteps := r.Int("steps", 3, 14)
	opened := map[int]int{} // msg index -> op index of the first successful open
	for st := 0; st < nsteps; st++ {
		switch a := r.Pick("action", 10); {
		case a <= 2 || len(anns) == 0:
			if len(anns) == 0 || a == 0 {
				o := rec(S, "S", "ann", len(anns), func() ([]byte, error) { return S.st.GetShareableChainKey(ctx, g, rmd.Member()) })
				if !o.ok {
					r.Infra("announcement failed")
					return
				}
				anns = append(anns, o.result)
				continue
			}
			tag := []byte(fmt.Sprintf("m%d", len(msgs)+1))
			o := rec(S, "S", "seal", len(msgs), func() ([]byte, error) { return S.st.SealEnvelope(ctx, g, vpayload("", tag)) })
			if !o.ok {
				r.Infra("seal failed")
				return
			}
			_, h, err := S.st.OpenEnvelopeHeaders(o.result, g)
			if err != nil {
				r.Infra("own headers: %v", err)
				return
			}
			msgs = append(msgs, msg{counter: h.Counter, env: o.result, tag: tag, sealOp: len(ops) - 1})
		case a <= 4:
			ai := r.Pick("ann", len(anns))
			rec(R, "R", "register", ai, func() ([]byte, error) { return nil, R.st.RegisterChainKey(ctx, g, smd.Device(), anns[ai]) })
		default:
			if len(msgs) == 0 {
				continue
			}
			mi := r.Pick("msg", len(msgs))
			o := rec(R, "R", "open", mi, func() ([]byte, error) {
				_, pl, err := vopen(ctx, R, g, msgs[mi].env, vcid(msgs[mi].env))
				return pl, err
			})
			if o.ok {
				if _, done := opened[mi]; !done {
					opened[mi] = len(ops) - 1
				}
			}
		}
	}
	r.Logf("workload: %d ops, %d messages, %d announcements, S mutations=%d R mutations=%d", len(ops), len(msgs), len(anns), S.disk.Mutations(), R.disk.Mutations())

	// which op is in flight at crash point k of a party: the op with a <= k < b; ops with b <= k completed
	inflight := func(party string, k int) int {
		for i, o := range ops {
			if o.party == party && o.a <= k && k < o.b {
				return i
			}
		}
		return -1
	}
	completedBefore := func(party string, k int, i int) bool {
		return ops[i].party == party && ops[i].b <= k
	}

	openableOn := func(d *disk.Disk, mi int) bool {
		p, err := c10mk(d.Clone(), batching, w)
		if err != nil {
			return false
		}
		_, pl, err := vopen(ctx, p, g, msgs[mi].env, vcid(msgs[mi].env))
		return err == nil && bytes.Equal(pl, msgs[mi].tag)
	}

	// ---- receiver crash points
	for k := 0; k <= R.disk.Mutations() && !r.Failed(); k++ {
		crashed := R.disk.Snapshot(k)
		fi := inflight("R", k)
		if fi >= 0 && ops[fi].a < k {
			r.Fault("crash_inside_operation")
			r.Probe("crash_inside_" + ops[fi].kind)
		} else {
			r.Fault("crash_between_operations")
		}
		r.Step()
		// (1) opened stays openable
		for mi, oi := range opened {
			if completedBefore("R", k, oi) && !openableOn(crashed, mi) {
				r.Violate("recovery", "opened-message-lost", "receiver crash at mutation %d (in flight: %s): message counter %d, opened before the crash, no longer opens", k, c10desc(ops, fi), msgs[mi].counter)
				return
			}
		}
		// (2) openable before the in-flight operation started stays openable
		pre := R.disk.Snapshot(k)
		if fi >= 0 {
			pre = R.disk.Snapshot(ops[fi].a)
		}
		for mi := range msgs {
			if openableOn(pre, mi) {
				if !openableOn(crashed, mi) {
					r.Violate("recovery", "openable-message-lost", "receiver crash at mutation %d (in flight: %s): message counter %d was openable before that operation and is not openable after restart", k, c10desc(ops, fi), msgs[mi].counter)
					return
				}
			}
		}
		// (4) keys whose first read had returned are unchanged
		firstKeys := -1
		for i, o := range ops {
			if o.party == "R" && o.kind == "keys" {
				firstKeys = i
			}
		}
		if firstKeys >= 0 && completedBefore("R", k, firstKeys) {
			p, _ := c10mk(crashed.Clone(), batching, w)
			nk, err := c10readKeys(p, g, sAcc)
			if err != nil {
				r.Violate("recovery", "keys-unreadable", "receiver crash at mutation %d: keys unreadable after restart: %v", k, err)
				return
			}
			if d := rKeys.diff(nk); d != "" {
				r.Violate("recovery", "key-changed", "receiver crash at mutation %d: %s differs after restart", k, d)
				return
			}
		}
		// continuation: the rest of the receiver workload (re-delivering the in-flight operation) is applied to
		// the restarted store; every message the crash-free run opened must be opened here too
		// (only once the receiver's identity keys are durable: before that a restart legitimately creates a new identity)
		if (r.Pick("continue", 4) == 0 || k == R.disk.Mutations()) && firstKeys >= 0 && completedBefore("R", k, firstKeys) {
			p, _ := c10mk(crashed.Clone(), batching, w)
			start := fi
			if start < 0 {
				start = len(ops)
				for i, o := range ops {
					if o.party == "R" && o.a >= k {
						start = i
						break
					}
				}
			}
			got := map[int]bool{}
			for mi, oi := range opened {
				if completedBefore("R", k, oi) {
					got[mi] = true
				}
			}
			for i := start; i < len(ops); i++ {
				o := ops[i]
				if o.party != "R" {
					continue
				}
				switch o.kind {
				case "register":
					_ = p.st.RegisterChainKey(ctx, g, smd.Device(), anns[o.arg])
				case "open":
					if _, pl, err := vopen(ctx, p, g, msgs[o.arg].env, vcid(msgs[o.arg].env)); err == nil && bytes.Equal(pl, msgs[o.arg].tag) {
						got[o.arg] = true
					}
				}
			}
			for mi := range opened {
				if !got[mi] {
					// retry once after the others (the ratchet contract of C02)
					if _, pl, err := vopen(ctx, p, g, msgs[mi].env, vcid(msgs[mi].env)); err == nil && bytes.Equal(pl, msgs[mi].tag) {
						continue
					}
					r.Violate("recovery", "continuation-diverged", "receiver crash at mutation %d (in flight: %s): after restart and re-delivery of the remaining workload message counter %d cannot be opened, the crash-free run opened it", k, c10desc(ops, fi), msgs[mi].counter)
					return
				}
			}
			r.Probe("continuation_checked")
		}
	}
	if r.Failed() {
		return
	}

	// ---- sender crash points
	recvAll, _ := c10mk(disk.New(), true, 100)
	_ = recvAll
	for k := 0; k <= S.disk.Mutations() && !r.Failed(); k++ {
		crashed := S.disk.Snapshot(k)
		fi := inflight("S", k)
		if fi >= 0 && ops[fi].a < k {
			r.Fault("crash_inside_operation")
			r.Probe("crash_inside_" + ops[fi].kind)
		} else {
			r.Fault("crash_between_operations")
		}
		r.Step()
		p, err := c10mk(crashed.Clone(), batching, w)
		if err != nil {
			r.Infra("%v", err)
			return
		}
		// (4) keys
		firstKeys := -1
		for i, o := range ops {
			if o.party == "S" && o.kind == "keys" {
				firstKeys = i
			}
		}
		if firstKeys >= 0 && completedBefore("S", k, firstKeys) {
			nk, err := c10readKeys(p, g, rAcc)
			if err != nil {
				r.Violate("recovery", "keys-unreadable", "sender crash at mutation %d: keys unreadable after restart: %v", k, err)
				return
			}
			if d := sKeys.diff(nk); d != "" {
				r.Violate("recovery", "key-changed", "sender crash at mutation %d: %s differs after restart", k, d)
				return
			}
		} else {
			continue // the group (contact group / member device) may not exist yet for this store
		}
		// usable: an announcement and a new envelope can be produced
		if _, err := p.st.GetShareableChainKey(ctx, g, rmd.Member()); err != nil {
			r.Violate("recovery", "sender-unusable", "sender crash at mutation %d (in flight: %s): GetShareableChainKey fails after restart: %v", k, c10desc(ops, fi), err)
			return
		}
		env, err := p.st.SealEnvelope(ctx, g, vpayload("", []byte("after-restart")))
		if err != nil {
			r.Violate("recovery", "sender-unusable", "sender crash at mutation %d (in flight: %s): SealEnvelope fails after restart: %v", k, c10desc(ops, fi), err)
			return
		}
		_, h, err := p.st.OpenEnvelopeHeaders(env, g)
		if err != nil {
			r.Violate("recovery", "sender-unusable", "sender crash at mutation %d: own envelope headers unreadable: %v", k, err)
			return
		}
		// (3) no counter shared with an envelope handed out before the crash
		for _, m := range msgs {
			if completedBefore("S", k, m.sealOp) && m.counter == h.Counter {
				r.Violate("recovery", "counter-reuse", "sender crash at mutation %d (in flight: %s): envelope sealed after restart reuses counter %d of an envelope handed out before the crash", k, c10desc(ops, fi), h.Counter)
				return
			}
		}
		_ = gpk
	}
}

func c10desc(ops []c10op, i int) string {
	if i < 0 {
		return "none"
	}
	return fmt.Sprintf("%s.%s", ops[i].party, ops[i].kind)
}
