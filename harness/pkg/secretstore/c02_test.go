//go:build verif

package secretstore

import (
	"bytes"
	"context"
	"fmt"
	"testing"

	"github.com/ipfs/go-cid"
	"github.com/libp2p/go-libp2p/core/crypto"

	"berty.tech/weshnet/v2/internal/verifsim/kernel"
	"berty.tech/weshnet/v2/pkg/protocoltypes"
)

// C02: the receiver ratchet tolerates any arrival order, duplication and interleaving; reference
// model = DESIGN.md appendix B.1 (window of precomputed keys that slides by one per opened message).

type c02msg struct {
	counter uint64
	env     []byte
	id      cid.Cid
	tag     []byte
}

type c02ann struct {
	counter uint64
	blob    []byte
}

// c02model is the ratchet window model for one (receiver, sender device) pair.
type c02model struct {
	registered bool
	c, h       uint64
	w          uint64
	k          map[uint64]bool
	opened     map[string]bool // cid
}

func (m *c02model) register(c uint64) {
	if m.registered {
		return
	}
	m.registered = true
	m.c, m.h = c, c+m.w
	m.k = map[uint64]bool{}
	for i := c + 1; i <= c+m.w; i++ {
		m.k[i] = true
	}
}

func (m *c02model) open(counter uint64, id string) bool {
	if m.opened[id] {
		return true
	}
	if !m.registered || !m.k[counter] {
		return false
	}
	delete(m.k, counter)
	m.h++
	m.k[m.h] = true
	m.opened[id] = true
	return true
}

// forceOpen records an open the implementation granted beyond what the statement requires.
func (m *c02model) forceOpen(counter uint64, id string) {
	delete(m.k, counter)
	m.h++
	m.k[m.h] = true
	m.opened[id] = true
}

type c02sender struct {
	p    *vparty
	msgs []c02msg
	anns []c02ann
	mod  *c02model
}

func TestVerifC02(t *testing.T) {
	kernel.InstallCrypto(t)
	kernel.Component("secret store (ratchet, chain keys, precomputed keys)", "real")
	kernel.Component("datastore", "simulated (SimDisk)")
	kernel.Component("network (arrival order, duplication)", "simulated (arrival schedule drawn from the seed)")
	kernel.Check(t, "C02", c02run)
}

func c02run(r *kernel.Run) {
	ctx := context.Background()
	kernel.SeedCrypto(r.Uint64("cryptoseed"))
	big := r.Pick("bigwindow", 12) == 11
	w := r.Int("window", 1, 4)
	nmax := 8
	if big {
		w, nmax = 100, 300
	}
	kind := r.Pick("grouptype", 3)
	nsenders := 1 + r.Pick("senders", 2)
	if kind == 2 {
		nsenders = 1
	}
	recv, err := vnewParty("R", w, 3)
	if err != nil {
		r.Infra("receiver: %v", err)
		return
	}
	var g *protocoltypes.Group
	senders := make([]*c02sender, nsenders)
	for i := range senders {
		p, err := vnewParty(fmt.Sprintf("S%d", i), w, 3)
		if err != nil {
			r.Infra("sender: %v", err)
			return
		}
		senders[i] = &c02sender{p: p, mod: &c02model{w: uint64(w), opened: map[string]bool{}}}
	}
	if kind == 2 {
		// account group: the receiver is a second device of the sender's account
		g, err = vgroup(2, senders[0].p, recv)
	} else if kind == 1 && nsenders == 1 {
		g, err = vgroup(1, senders[0].p, recv)
	} else {
		kind = 0
		g, err = vgroup(0, nil, nil)
	}
	if err != nil {
		r.Infra("group: %v", err)
		return
	}
	rmd, err := recv.md(g)
	if err != nil {
		r.Infra("receiver md: %v", err)
		return
	}
	r.Logf("window=%d grouptype=%d senders=%d", w, kind, nsenders)

	// senders produce their histories: messages and chain-key announcements at drawn counters
	for si, s := range senders {
		n := r.Int("nmsgs", 1, nmax)
		nann := r.Int("nanns", 1, 3)
		annAt := map[int]bool{r.Int("ann0", 0, n-1): true}
		for j := 1; j < nann; j++ {
			annAt[r.Int("annj", 0, n)] = true
		}
		for i := 0; i <= n; i++ {
			if annAt[i] {
				blob, err := s.p.st.GetShareableChainKey(ctx, g, rmd.Member())
				if err != nil {
					r.Infra("GetShareableChainKey: %v", err)
					return
				}
				s.anns = append(s.anns, c02ann{counter: uint64(i), blob: blob})
			}
			if i == n {
				break
			}
			if i == 0 && len(s.anns) == 0 {
				// make sure the sender's own chain key exists before the first seal
				if _, err := s.p.st.GetShareableChainKey(ctx, g, rmd.Member()); err != nil {
					r.Infra("GetShareableChainKey: %v", err)
					return
				}
			}
			tag := []byte(fmt.Sprintf("s%d-m%d-", si, i+1))
			tag = append(tag, kernel.DetBytes(uint64(si*1000+i), r.Int("paylen", 0, 40))...)
			env, err := s.p.st.SealEnvelope(ctx, g, vpayload("", tag))
			if err != nil {
				r.Infra("SealEnvelope: %v", err)
				return
			}
			s.msgs = append(s.msgs, c02msg{counter: uint64(i + 1), env: env, id: vcid(env), tag: tag})
		}
		r.Logf("sender %d: %d messages, announcements at counters %v", si, n, func() []uint64 {
			var o []uint64
			for _, a := range s.anns {
				o = append(o, a.counter)
			}
			return o
		}())
	}

	attempt := func(si int, mi int, phase string) bool {
		s := senders[si]
		m := s.msgs[mi]
		want := s.mod.open(m.counter, m.id.String())
		hdr, got, err := vopen(ctx, recv, g, m.env, m.id)
		ok := err == nil
		r.Logf("%s open s%d#%d -> %v (model %v)", phase, si, m.counter, ok, want)
		r.Step()
		if !ok && want {
			r.Violate("window-model", "open-refused-but-openable", "sender %d counter %d: refused (err=%v) although c=%d < k <= c+W+opened=%d (W=%d, registered=%v, reopen=%v)",
				si, m.counter, err, s.mod.c, s.mod.h, s.mod.w, s.mod.registered, s.mod.opened[m.id.String()])
			return false
		}
		if ok && !want {
			// opening more than the statement requires is only a violation for messages that must never open:
			// no chain key registered, or sealed at or before the registered counter c
			if !s.mod.registered {
				r.Violate("window-model", "opened-without-chain-key", "sender %d counter %d opened although no chain key of that device was registered", si, m.counter)
				return false
			}
			if m.counter <= s.mod.c {
				r.Violate("window-model", "opened-before-announcement", "sender %d counter %d opened although it was sealed before the registered counter c=%d", si, m.counter, s.mod.c)
				return false
			}
			r.Probe("opened_beyond_required_window")
			s.mod.forceOpen(m.counter, m.id.String())
		}
		if ok {
			if !bytes.Equal(got, m.tag) {
				r.Violate("payload", "wrong-payload", "sender %d counter %d opened to a different payload", si, m.counter)
				return false
			}
			if hdr.Counter != m.counter || !bytes.Equal(hdr.DevicePk, vraw(mustDev(s.p, g))) {
				r.Violate("payload", "wrong-attribution", "sender %d counter %d attributed to counter %d", si, m.counter, hdr.Counter)
				return false
			}
		}
		return true
	}

	// arrival schedule
	steps := r.Int("steps", 1, 40)
	if big {
		steps = r.Int("stepsbig", 20, 400)
	}
	seen := map[string]int{}
	for st := 0; st < steps && !r.Failed(); st++ {
		si := r.Pick("sender", nsenders)
		s := senders[si]
		switch a := r.Pick("action", 10); {
		case a <= 5: // deliver a message (any order; repeats = duplication / retry)
			mi := r.Pick("msg", len(s.msgs))
			key := fmt.Sprintf("%d/%d", si, mi)
			seen[key]++
			if seen[key] > 1 {
				r.Fault("duplicate_or_retry")
			}
			if mi > 0 && seen[fmt.Sprintf("%d/%d", si, mi-1)] == 0 {
				r.Fault("reorder")
			}
			if s.mod.registered && (s.msgs[mi].counter == s.mod.h || s.msgs[mi].counter == s.mod.h+1) {
				r.Probe("window_edge_hit")
			}
			if s.mod.registered && s.msgs[mi].counter <= s.mod.c {
				r.Probe("message_before_announcement")
			}
			if !attempt(si, mi, "arrive") {
				return
			}
		case a <= 7: // deliver an announcement (first, same again, older or newer)
			ai := r.Pick("ann", len(s.anns))
			an := s.anns[ai]
			if s.mod.registered {
				r.Fault("re_registration")
				switch {
				case an.counter < s.mod.c:
					r.Probe("older_announcement_after_registration")
				case an.counter > s.mod.c:
					r.Probe("newer_announcement_after_registration")
				}
			}
			err := recv.st.RegisterChainKey(ctx, g, mustDev(s.p, g), an.blob)
			r.Logf("register s%d ann@%d -> %v", si, an.counter, err)
			if err != nil {
				r.Violate("register", "register-failed", "RegisterChainKey of an authentic announcement failed: %v", err)
				return
			}
			s.mod.register(an.counter)
		default: // restart of the receiver on its durable state
			if err := recv.restart(); err != nil {
				r.Infra("restart: %v", err)
				return
			}
			r.Fault("receiver_restart")
			r.Logf("receiver restart")
		}
	}
	if r.Failed() {
		return
	}
	// every sender gets registered at least once, then a final probe of every counter twice
	for si, s := range senders {
		if !s.mod.registered {
			an := s.anns[0]
			if err := recv.st.RegisterChainKey(ctx, g, mustDev(s.p, g), an.blob); err != nil {
				r.Violate("register", "register-failed", "RegisterChainKey failed: %v", err)
				return
			}
			s.mod.register(an.counter)
			r.Logf("late register s%d ann@%d", si, an.counter)
		}
	}
	for pass := 0; pass < 2; pass++ {
		for si, s := range senders {
			for mi := range s.msgs {
				if !attempt(si, mi, fmt.Sprintf("final%d", pass)) {
					return
				}
			}
		}
	}
}

func mustDev(p *vparty, g *protocoltypes.Group) crypto.PubKey {
	md, err := p.md(g)
	if err != nil {
		panic(err)
	}
	return md.Device()
}
