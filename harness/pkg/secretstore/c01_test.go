//go:build verif

package secretstore

import (
	"bytes"
	"context"
	"fmt"
	"testing"

	"github.com/libp2p/go-libp2p/core/crypto"
	"golang.org/x/crypto/nacl/secretbox"
	"google.golang.org/protobuf/proto"

	"berty.tech/weshnet/v2/internal/verifsim/disk"
	"berty.tech/weshnet/v2/internal/verifsim/kernel"
	"berty.tech/weshnet/v2/pkg/cryptoutil"
	"berty.tech/weshnet/v2/pkg/protocoltypes"
)

// C01: sealed group messages open to the original payload, attributed to the sealing device and
// counter, or are rejected. Three-party session: sender S, receiver R, Byzantine member B (a
// registered member: holds the group secret and S's chain key, hence S's message keys, but not S's
// device signing key). Every envelope in flight from S to R is subjected to the fault catalogue;
// every successful open at R must map to a tuple recorded when SealEnvelope returned.

type c01sealed struct {
	group   int
	counter uint64
	payload []byte
	env     []byte
}

func TestVerifC01(t *testing.T) {
	kernel.InstallCrypto(t)
	kernel.Component("secret store SealEnvelope / OpenEnvelopeHeaders / OpenEnvelopePayload", "real")
	kernel.Component("datastore", "simulated (SimDisk)")
	kernel.Component("transport S->R and Byzantine member B", "simulated (envelopes in flight are mutated / forged by the simulator)")
	kernel.Check(t, "C01", c01run)
}

func c01open(ctx context.Context, base *vparty, g *protocoltypes.Group, env []byte) (*protocoltypes.MessageHeaders, []byte, error) {
	// every attempt runs on a clone of the receiver's durable state: attempts do not influence each other
	p, err := vnewPartyOn(base.name, base.disk.Clone(), base.window, base.oosWin)
	if err != nil {
		return nil, nil, err
	}
	return vopen(ctx, p, g, env, vcid(env))
}

func c01run(r *kernel.Run) {
	ctx := context.Background()
	kernel.SeedCrypto(r.Uint64("cryptoseed"))
	kind := r.Pick("grouptype", 3)
	S, _ := vnewParty("S", 8, 3)
	R, _ := vnewParty("R", 8, 3)
	B, _ := vnewParty("B", 8, 3)
	var groups []*protocoltypes.Group
	g, err := vgroup(kind, S, R)
	if err != nil {
		r.Infra("group: %v", err)
		return
	}
	groups = append(groups, g)
	if kind == 0 {
		g2, _, _ := protocoltypes.NewGroupMultiMember()
		groups = append(groups, g2) // a second group with the same members, for cross-group replay
	}
	bMember := kind == 0 // B can only be a third member of a multi-member group
	sdev := mustDev(S, g)
	_ = sdev
	for gi, gg := range groups {
		rmd, _ := R.md(gg)
		smd, _ := S.md(gg)
		ann, err := S.st.GetShareableChainKey(ctx, gg, rmd.Member())
		if err != nil {
			r.Infra("ann: %v", err)
			return
		}
		if err := R.st.RegisterChainKey(ctx, gg, smd.Device(), ann); err != nil {
			r.Infra("register R (group %d): %v", gi, err)
			return
		}
		if bMember {
			bmd, _ := B.md(gg)
			annB, err := S.st.GetShareableChainKey(ctx, gg, bmd.Member())
			if err != nil {
				r.Infra("annB: %v", err)
				return
			}
			if err := B.st.RegisterChainKey(ctx, gg, smd.Device(), annB); err != nil {
				r.Infra("register B: %v", err)
				return
			}
		}
	}
	sizes := []int{0, 1, 2, 31, 32, 33, 255, 4096, 65536}
	n := r.Int("nmsgs", 1, 6)
	var msgs []c01sealed
	for i := 0; i < n; i++ {
		gi := r.Pick("group", len(groups))
		sz := sizes[r.Pick("size", 8)]
		if r.Pick("huge", 40) == 39 {
			sz = 65536
		}
		if r.Pick("randsize", 3) == 2 {
			sz = r.Int("anysize", 0, 600)
		}
		pl := kernel.DetBytes(r.Uint64("payload"), sz)
		env, err := S.st.SealEnvelope(ctx, groups[gi], vpayload("", pl))
		if err != nil {
			r.Infra("seal: %v", err)
			return
		}
		_, h, err := S.st.OpenEnvelopeHeaders(env, groups[gi])
		if err != nil {
			r.Infra("own headers: %v", err)
			return
		}
		msgs = append(msgs, c01sealed{group: gi, counter: h.Counter, payload: pl, env: env})
	}
	r.Logf("grouptype=%d groups=%d messages=%d sizes=%v byzantine_member=%v", kind, len(groups), n, func() []int {
		var o []int
		for _, m := range msgs {
			o = append(o, len(m.payload))
		}
		return o
	}(), bMember)

	warm := r.Pick("warm_receiver", 3) == 0
	if warm {
		r.Probe("receiver_instance_opened_genuine_first")
	}
	sdevRaw := func(gi int) []byte { return vraw(mustDev(S, groups[gi])) }
	authentic := func(gi int, dev []byte, counter uint64, payload []byte) bool {
		for _, m := range msgs {
			if m.group == gi && m.counter == counter && bytes.Equal(sdevRaw(gi), dev) && bytes.Equal(m.payload, payload) {
				return true
			}
		}
		return false
	}
	// try delivers an (altered) envelope to R as an entry of group gi; a successful open must be an authentic tuple
	// genuineFor returns the authentic message (if any) that an altered envelope displaces: same group and counter
	genuineFor := func(gi int, env []byte) *c01sealed {
		_, h, err := R.st.OpenEnvelopeHeaders(env, groups[gi])
		if err != nil {
			return nil
		}
		for i := range msgs {
			if msgs[i].group == gi && msgs[i].counter == h.Counter && bytes.Equal(h.DevicePk, sdevRaw(gi)) {
				return &msgs[i]
			}
		}
		return nil
	}
	try := func(cat, what string, gi int, env []byte, mustFail bool) bool {
		// the altered entry is delivered twice to one and the same receiver state (a log entry is re-read on
		// restart and on listing), then the genuine message it tried to displace must still open there
		p, err := vnewPartyOn(R.name, R.disk.Clone(), R.window, R.oosWin)
		if err != nil {
			r.Infra("clone: %v", err)
			return false
		}
		if warm {
			// the same store INSTANCE has already read the headers of every genuine message, as the message store does
			// when an entry arrives, before any payload is opened (whatever it remembers in memory about them must not
			// make an altered copy acceptable)
			for _, m := range msgs {
				_, _, _ = p.st.OpenEnvelopeHeaders(m.env, groups[m.group])
			}
		}
		h, pl, err := vopen(ctx, p, groups[gi], env, vcid(env))
		if err != nil {
			h, pl, err = vopen(ctx, p, groups[gi], env, vcid(env))
			if err == nil {
				r.Probe("second_attempt_differs")
			}
		}
		r.Step()
		if err != nil {
			if g := genuineFor(gi, env); g != nil && !bytes.Equal(g.env, env) {
				if _, gpl, gerr := vopen(ctx, p, groups[gi], g.env, vcid(g.env)); gerr != nil || !bytes.Equal(gpl, g.payload) {
					r.Violate("authenticity", "rejected-forgery-displaces-genuine-message/"+cat, "%s: the altered envelope was rejected, but afterwards the genuine message with that counter (%d) no longer opens on the same receiver: %v", what, g.counter, gerr)
					return false
				}
				r.Probe("genuine_opens_after_rejected_forgery")
			}
			return true
		}
		r.Probe("altered_envelope_opened_to_authentic_tuple")
		if !authentic(gi, h.DevicePk, h.Counter, pl) {
			r.Violate("authenticity", "delivered-with-wrong-content-or-attribution/"+cat, "%s: the receiver opened an envelope to (device %x, counter %d, %d-byte payload) that no honest SealEnvelope produced for this group", what, h.DevicePk[:4], h.Counter, len(pl))
			return false
		}
		if mustFail {
			r.Violate("authenticity", "altered-envelope-accepted/"+cat, "%s: an envelope altered inside an authenticated region was accepted (device %x, counter %d)", what, h.DevicePk[:4], h.Counter)
			return false
		}
		return true
	}

	// 0. every unmodified envelope opens to exactly its tuple
	for i, m := range msgs {
		h, pl, err := c01open(ctx, R, groups[m.group], m.env)
		if err != nil {
			r.Violate("completeness", "authentic-envelope-rejected", "message %d (counter %d, %d bytes) sealed for a registered receiver does not open: %v", i, m.counter, len(m.payload), err)
			return
		}
		if !bytes.Equal(pl, m.payload) || h.Counter != m.counter || !bytes.Equal(h.DevicePk, sdevRaw(m.group)) {
			r.Violate("authenticity", "wrong-tuple", "message %d opened to a different payload or attribution", i)
			return
		}
	}
	r.Probe("authentic_opened")

	// 1. single-bit flips of envelopes in flight
	for i, m := range msgs {
		nbits := len(m.env) * 8
		positions := nbits
		sampled := false
		if len(m.env) > 2048 {
			positions, sampled = 4096, true
		}
		if i > 0 && r.Pick("flip_this", 3) != 0 { // the first envelope is always swept; others by draw (cost)
			continue
		}
		for k := 0; k < positions; k++ {
			bit := k
			if sampled {
				bit = int(kernel.DetBytes(uint64(k)*7919+uint64(i), 4)[0])<<16 | int(kernel.DetBytes(uint64(k)*7919+uint64(i), 4)[1])<<8 | int(kernel.DetBytes(uint64(k)*7919+uint64(i), 4)[2])
				bit %= nbits
			}
			e2 := append([]byte(nil), m.env...)
			e2[bit/8] ^= 1 << (bit % 8)
			r.Fault("bit_flip")
			// a flip that changes the content of one of the three authenticated fields (boxed headers, nonce, boxed
			// payload) must be rejected; one that only touches protobuf framing must at least not open to anything else
			inAuthenticated := false
			oe, ae := &protocoltypes.MessageEnvelope{}, &protocoltypes.MessageEnvelope{}
			if proto.Unmarshal(m.env, oe) == nil && proto.Unmarshal(e2, ae) == nil {
				inAuthenticated = !bytes.Equal(oe.MessageHeaders, ae.MessageHeaders) || !bytes.Equal(oe.Nonce, ae.Nonce) || !bytes.Equal(oe.Message, ae.Message)
			}
			if inAuthenticated {
				r.Probe("flip_inside_authenticated_field")
			}
			if !try("bit-flip", fmt.Sprintf("bit flip at %d of message %d", bit, i), m.group, e2, inAuthenticated) {
				return
			}
		}
	}

	// 2. field substitution between envelopes (headers / nonce / message swapped)
	for i := range msgs {
		for j := range msgs {
			if i == j {
				continue
			}
			a, b := &protocoltypes.MessageEnvelope{}, &protocoltypes.MessageEnvelope{}
			if proto.Unmarshal(msgs[i].env, a) != nil || proto.Unmarshal(msgs[j].env, b) != nil {
				continue
			}
			for _, v := range []struct {
				name string
				e    *protocoltypes.MessageEnvelope
			}{
				{"headers+nonce of A, message of B", &protocoltypes.MessageEnvelope{MessageHeaders: a.MessageHeaders, Nonce: a.Nonce, Message: b.Message}},
				{"headers of A, nonce of B", &protocoltypes.MessageEnvelope{MessageHeaders: a.MessageHeaders, Nonce: b.Nonce, Message: a.Message}},
				{"message truncated", &protocoltypes.MessageEnvelope{MessageHeaders: a.MessageHeaders, Nonce: a.Nonce, Message: a.Message[:len(a.Message)/2]}},
			} {
				e2, _ := proto.Marshal(v.e)
				r.Fault("field_substitution")
				if !try("field-substitution", fmt.Sprintf("%s (A=%d,B=%d)", v.name, i, j), msgs[i].group, e2, true) {
					return
				}
			}
		}
	}

	// 3. cross-group replay
	if len(groups) > 1 {
		for i, m := range msgs {
			r.Fault("cross_group_replay")
			if !try("cross-group-replay", fmt.Sprintf("message %d replayed in the other group", i), 1-m.group, m.env, true) {
				return
			}
		}
	}

	// 4. re-attribution and forgery by the Byzantine member (knows group secret and S's message keys)
	if bMember {
		_, otherPub, _ := crypto.GenerateEd25519Key(nil)
		otherRaw, _ := otherPub.Raw()
		bmd, _ := B.md(groups[0])
		for i, m := range msgs {
			gg := groups[m.group]
			env, hdr, err := B.st.OpenEnvelopeHeaders(m.env, gg)
			if err != nil {
				r.Infra("B cannot open headers: %v", err)
				return
			}
			reseal := func(h *protocoltypes.MessageHeaders, message []byte) []byte {
				hb, _ := proto.Marshal(h)
				nonce, _ := cryptoutil.GenerateNonce()
				box := secretbox.Seal(nil, hb, nonce, gg.GetSharedSecret())
				out, _ := proto.Marshal(&protocoltypes.MessageEnvelope{MessageHeaders: box, Message: message, Nonce: nonce[:]})
				return out
			}
			rdev := vraw(mustDev(R, gg))
			for _, v := range []struct {
				name string
				h    *protocoltypes.MessageHeaders
			}{
				{"re-attributed to the receiver's own device", &protocoltypes.MessageHeaders{Counter: hdr.Counter, DevicePk: rdev, Sig: hdr.Sig}},
				{"re-attributed to an unknown device", &protocoltypes.MessageHeaders{Counter: hdr.Counter, DevicePk: otherRaw, Sig: hdr.Sig}},
				{"counter + 1", &protocoltypes.MessageHeaders{Counter: hdr.Counter + 1, DevicePk: hdr.DevicePk, Sig: hdr.Sig}},
				{"counter - 1", &protocoltypes.MessageHeaders{Counter: hdr.Counter - 1, DevicePk: hdr.DevicePk, Sig: hdr.Sig}},
			} {
				r.Fault("re_attribution")
				if !try("re-attribution", fmt.Sprintf("message %d %s", i, v.name), m.group, reseal(v.h, env.Message), true) {
					return
				}
			}
			// forgery: arbitrary payload under S's genuine message key for that counter, without S's signing key
			gpk, _ := gg.GetPubKey()
			mk, err := B.st.getPrecomputedMessageKey(ctx, gpk, mustDev(S, gg), hdr.Counter)
			if err != nil {
				continue // outside B's window
			}
			evil := vpayload("", append([]byte("forged-by-B-"), kernel.DetBytes(uint64(i), 16)...))
			box := secretbox.Seal(nil, evil, uint64AsNonce(hdr.Counter), (*[32]byte)(mk))
			bsig, _ := bmd.DeviceSign(evil)
			var otherSig []byte
			if len(msgs) > 1 {
				_, oh, _ := B.st.OpenEnvelopeHeaders(msgs[(i+1)%len(msgs)].env, groups[msgs[(i+1)%len(msgs)].group])
				if oh != nil {
					otherSig = oh.Sig
				}
			}
			for _, v := range []struct {
				name string
				sig  []byte
			}{
				{"signed by B", bsig}, {"S's signature of another payload", otherSig}, {"S's signature of the original payload", hdr.Sig},
				{"random signature", kernel.DetBytes(uint64(i)+5, 64)}, {"empty signature", nil},
			} {
				r.Fault("member_forgery")
				f := reseal(&protocoltypes.MessageHeaders{Counter: hdr.Counter, DevicePk: hdr.DevicePk, Sig: v.sig}, box)
				if !try("member-forgery", fmt.Sprintf("message %d replaced by a payload forged under S's message key, %s", i, v.name), m.group, f, true) {
					return
				}
			}
			r.Probe("member_forgery_attempted")
		}
	}
	// 5. forgery attributed to the OPENING device: B (who holds R's chain key, like every member) replaces a message
	// R itself sealed by another payload under R's genuine message key; R's own store (its other views of the log,
	// a reopen, a listing) must reject it
	if bMember {
		gg := groups[0]
		bmd, _ := B.md(gg)
		rmd, _ := R.md(gg)
		annR, err := R.st.GetShareableChainKey(ctx, gg, bmd.Member())
		if err != nil {
			r.Infra("annR: %v", err)
			return
		}
		if err := B.st.RegisterChainKey(ctx, gg, rmd.Device(), annR); err != nil {
			r.Infra("B registers R: %v", err)
			return
		}
		own := []byte("sealed-by-R-itself")
		envOwn, err := R.st.SealEnvelope(ctx, gg, vpayload("", own))
		if err != nil {
			r.Infra("R seals: %v", err)
			return
		}
		_, hOwn, _ := R.st.OpenEnvelopeHeaders(envOwn, gg)
		gpk, _ := gg.GetPubKey()
		if mk, err := B.st.getPrecomputedMessageKey(ctx, gpk, rmd.Device(), hOwn.Counter); err == nil {
			evil := vpayload("", []byte("forged-as-R-by-B"))
			box := secretbox.Seal(nil, evil, uint64AsNonce(hOwn.Counter), (*[32]byte)(mk))
			bsig, _ := bmd.DeviceSign(evil)
			for _, sig := range [][]byte{bsig, hOwn.Sig, nil, kernel.DetBytes(77, 64)} {
				hb, _ := proto.Marshal(&protocoltypes.MessageHeaders{Counter: hOwn.Counter, DevicePk: hOwn.DevicePk, Sig: sig})
				nonce, _ := cryptoutil.GenerateNonce()
				f, _ := proto.Marshal(&protocoltypes.MessageEnvelope{MessageHeaders: secretbox.Seal(nil, hb, nonce, gg.GetSharedSecret()), Message: box, Nonce: nonce[:]})
				q, _ := vnewPartyOn(R.name, R.disk.Clone(), R.window, R.oosWin)
				r.Fault("member_forgery_as_opening_device")
				if _, pl, err := vopen(ctx, q, gg, f, vcid(f)); err == nil {
					r.Violate("authenticity", "delivered-with-wrong-content-or-attribution/forgery-as-opening-device", "a payload forged by a fellow member under the receiver's OWN message key (counter %d) is delivered by the receiver's own store as its own message (%q)", hOwn.Counter, pl)
					return
				}
				if _, pl, err := vopen(ctx, q, gg, envOwn, vcid(envOwn)); err != nil || !bytes.Equal(pl, own) {
					r.Violate("authenticity", "rejected-forgery-displaces-genuine-message/forgery-as-opening-device", "after rejecting the forgery the device can no longer open its own message: %v", err)
					return
				}
			}
			r.Probe("forgery_as_opening_device_attempted")
		}
	}
	_ = disk.New
}
