//go:build verif

package secretstore

import (
	"fmt"
	"sync"
	"testing"

	"berty.tech/weshnet/v2/internal/verifsim/disk"
	"berty.tech/weshnet/v2/internal/verifsim/kernel"
	"berty.tech/weshnet/v2/internal/verifsim/sched"
	"berty.tech/weshnet/v2/pkg/protocoltypes"
)

// C11, controlled interleavings: the identities a store derives do not depend on which of several
// concurrent FIRST uses created the underlying keys. On a brand-new store 2-3 tasks ask, at the same time
// and for the first time, for the account group, the member/device keys of a multi-member group and the
// contact group with a peer; pkg/secretstore is instrumented (scheduling points at every lock operation,
// every SimDisk access is a point too) and the seeded scheduler decides the interleaving. Every task must
// have been handed the same identities, equal to what the store answers afterwards and after a restart on
// the same disk.

func TestVerifC11C(t *testing.T) {
	kernel.InstallCrypto(t)
	kernel.Component("secret store key derivation and key storage (first use)", "real (instrumented copy of the working tree)")
	kernel.Component("datastore", "simulated (SimDisk; every read/write is a scheduling point)")
	kernel.Component("goroutine scheduling", "simulated (seeded cooperative scheduler in a synctest bubble)")
	kernel.Check(t, "C11", func(r *kernel.Run) {
		strategy := r.Pick("strategy", 3)
		seed := r.Uint64("cryptoseed")
		r.Words(600)
		res := sched.Bubble(t, func() { c11crun(r, strategy, seed) })
		if res != "" && !r.Failed() {
			r.Infra("bubble panicked: %s", res)
		}
	})
}

func c11crun(r *kernel.Run, strategy int, seed uint64) {
	kernel.SeedCrypto(seed)
	sched.Deactivate()
	P, err := vnewParty("P", 2, 2)
	if err != nil {
		r.Infra("%v", err)
		return
	}
	O, err := vnewParty("O", 2, 2)
	if err != nil {
		r.Infra("%v", err)
		return
	}
	opk, err := O.accountPub()
	if err != nil {
		r.Infra("%v", err)
		return
	}
	mm, _, err := protocoltypes.NewGroupMultiMember()
	if err != nil {
		r.Infra("%v", err)
		return
	}
	ntasks := 2 + r.Choose(2)
	plans := make([][]int, ntasks)
	for i := range plans {
		for k := 1 + r.Choose(3); k > 0; k-- {
			plans[i] = append(plans[i], r.Choose(4))
		}
	}
	r.Logf("concurrent first use: %d tasks, plans %v, strategy %d", ntasks, plans, strategy)
	// what each kind of request answers, as a string of public identities
	ask := func(p *vparty, kind int) (string, error) {
		switch kind {
		case 0:
			g, md, err := p.st.GetGroupForAccount()
			if err != nil {
				return "", err
			}
			return fmt.Sprintf("account-group %x member %x device %x", g.PublicKey, vraw(md.Member()), vraw(md.Device())), nil
		case 1:
			md, err := p.st.GetOwnMemberDeviceForGroup(mm)
			if err != nil {
				return "", err
			}
			return fmt.Sprintf("member %x device %x", vraw(md.Member()), vraw(md.Device())), nil
		case 2:
			g, err := p.st.GetGroupForContact(opk)
			if err != nil {
				return "", err
			}
			return fmt.Sprintf("contact-group %x secret %x", g.PublicKey, g.Secret), nil
		default:
			sk, err := p.st.GetAccountPrivateKey()
			if err != nil {
				return "", err
			}
			return fmt.Sprintf("account %x", vraw(sk.GetPublic())), nil
		}
	}
	s := sched.New(r.Choose, strategy, func(f string, a ...any) { r.Logf(f, a...); r.Step() })
	P.disk.Hook = func(op, key string) { sched.Point("disk:" + op + ":" + disk.KeyClass(key)) }
	var mu sync.Mutex
	answers := map[int]map[string]bool{}
	var failure string
	for i := range plans {
		i := i
		s.Go(fmt.Sprintf("user%d", i), func() {
			for _, k := range plans[i] {
				a, err := ask(P, k)
				mu.Lock()
				if err != nil {
					failure = fmt.Sprintf("request kind %d failed: %v", k, err)
				} else {
					if answers[k] == nil {
						answers[k] = map[string]bool{}
					}
					answers[k][a] = true
				}
				mu.Unlock()
			}
		})
	}
	for s.Steps < 6000 && s.Step() {
	}
	st := s.Status()
	for _, t := range st.LockBlocked {
		r.Violate("deadlock", "secretstore-deadlock", "task %s blocked at %s on a lock held by %s", t.Label, t.Site, s.Holder(t))
	}
	for _, t := range st.RealBlocked {
		r.Violate("stuck", "task-stuck", "task %s is blocked in %s", t.Label, t.BlockedIn())
	}
	s.Abort()
	if r.Failed() {
		return
	}
	sched.Deactivate()
	P.disk.Hook = nil
	if s.Preemptions > 0 {
		r.Fault("preemption")
		r.Nontrivial()
	}
	if failure != "" {
		r.Violate("derive", "member-device-error", "a first use failed under concurrency: %s", failure)
		return
	}
	check := func(where string, p *vparty) bool {
		for k, set := range answers {
			now, err := ask(p, k)
			if err != nil {
				r.Violate("derive", "member-device-error", "%s: request kind %d fails: %v", where, k, err)
				return false
			}
			if len(set) != 1 || !set[now] {
				r.Violate("derive", "account-identity-differs", "%s: concurrent first uses of a new store were handed different identities for the same request (kind %d): %d distinct answers during the race, and they %s what the store answers now", where, k, len(set), map[bool]string{true: "include", false: "do not include"}[set[now]])
				return false
			}
		}
		return true
	}
	if !check("after the race", P) {
		return
	}
	if err := P.restart(); err != nil {
		r.Infra("restart: %v", err)
		return
	}
	if !check("after a restart on the same disk", P) {
		return
	}
	r.Probe("concurrent_first_use_checked")
}
