//go:build verif

package secretstore

import (
	"bytes"
	"context"
	"fmt"
	"testing"

	"google.golang.org/protobuf/proto"

	"berty.tech/weshnet/v2/internal/verifsim/kernel"
	"berty.tech/weshnet/v2/pkg/protocoltypes"
)

// C14: push payloads open offline to the right message without disturbing the log path.
// Sessions mix log delivery and push delivery of the same messages in every order, across several
// senders and groups, with counters at and beyond both windows, receiver restarts, bit flips of the
// push payload and unknown group references. The receiver has no network: only its secret store.

type c14msg struct {
	sender  int
	group   int
	counter uint64
	tag     []byte
	env     []byte
	push    []byte
}

type c14key struct{ sender, group int }

func TestVerifC14(t *testing.T) {
	kernel.InstallCrypto(t)
	kernel.Component("secret store SealOutOfStoreMessageEnvelope / OpenOutOfStoreMessage / log path", "real")
	kernel.Component("datastore", "simulated (SimDisk)")
	kernel.Component("delivery of push payloads and log entries", "simulated (order, duplication, corruption chosen by the seed)")
	kernel.Check(t, "C14", c14run)
}

func c14run(r *kernel.Run) {
	ctx := context.Background()
	kernel.SeedCrypto(r.Uint64("cryptoseed"))
	w := []int{1, 2, 3, 100}[r.Pick("window", 4)]
	n := []int{1, 2, 3, 100}[r.Pick("refwindow", 4)]
	nsenders := 1 + r.Pick("senders", 2)
	ngroups := 1 + r.Pick("groups", 2)
	R, err := vnewParty("R", w, n)
	if err != nil {
		r.Infra("%v", err)
		return
	}
	senders := make([]*vparty, nsenders)
	for i := range senders {
		senders[i], _ = vnewParty(fmt.Sprintf("S%d", i), w, n)
	}
	groups := make([]*protocoltypes.Group, ngroups)
	for i := range groups {
		groups[i], _, _ = protocoltypes.NewGroupMultiMember()
		if err := R.st.PutGroup(ctx, groups[i]); err != nil {
			r.Infra("PutGroup: %v", err)
			return
		}
	}
	r.Logf("window=%d refwindow=%d senders=%d groups=%d", w, n, nsenders, ngroups)
	models := map[c14key]*c02model{}
	last := map[c14key]uint64{} // last counter seen from that sender (centre of the reference window)
	var msgs []c14msg
	anns := map[c14key][]byte{}
	for si, S := range senders {
		for gi, g := range groups {
			rmd, _ := R.md(g)
			smd, _ := S.md(g)
			pre := r.Int("premsgs", 0, 3) // messages sealed before the announcement (never openable)
			if _, err := S.st.GetShareableChainKey(ctx, g, rmd.Member()); err != nil {
				r.Infra("chain key: %v", err)
				return
			}
			for i := 0; i < pre; i++ {
				if _, err := S.st.SealEnvelope(ctx, g, vpayload("pre", nil)); err != nil {
					r.Infra("seal: %v", err)
					return
				}
			}
			ann, err := S.st.GetShareableChainKey(ctx, g, rmd.Member())
			if err != nil {
				r.Infra("ann: %v", err)
				return
			}
			if err := R.st.RegisterChainKey(ctx, g, smd.Device(), ann); err != nil {
				r.Infra("register: %v", err)
				return
			}
			k := c14key{si, gi}
			anns[k] = ann
			models[k] = &c02model{w: uint64(w), opened: map[string]bool{}}
			models[k].register(uint64(pre))
			last[k] = uint64(pre + w) // registration centres the reference window on the advanced chain-key counter
			nm := r.Int("nmsgs", 1, 8)
			if w == 100 || n == 100 {
				nm = r.Int("nmsgsbig", 1, 30)
			}
			for i := 0; i < nm; i++ {
				tag := []byte(fmt.Sprintf("s%d-g%d-m%d", si, gi, pre+i+1))
				env, err := S.st.SealEnvelope(ctx, g, vpayload("", tag))
				if err != nil {
					r.Infra("seal: %v", err)
					return
				}
				e, h, err := S.st.OpenEnvelopeHeaders(env, g)
				if err != nil {
					r.Infra("headers: %v", err)
					return
				}
				oos, err := S.st.SealOutOfStoreMessageEnvelope(vcid(env), e, h, g)
				if err != nil {
					r.Infra("seal push: %v", err)
					return
				}
				pb, _ := proto.Marshal(oos)
				msgs = append(msgs, c14msg{sender: si, group: gi, counter: h.Counter, tag: tag, env: env, push: pb})
			}
		}
	}
	logOpened := map[int]bool{}
	steps := r.Int("steps", 1, 30)
	if w == 100 || n == 100 {
		steps = r.Int("stepsbig", 5, 80)
	}
	for st := 0; st < steps && !r.Failed(); st++ {
		mi := r.Pick("msg", len(msgs))
		m := msgs[mi]
		k := c14key{m.sender, m.group}
		mod := models[k]
		g := groups[m.group]
		sdev := vraw(mustDev(senders[m.sender], g))
		switch a := r.Pick("action", 10); {
		case a <= 3: // log delivery
			want := mod.open(m.counter, vcid(m.env).String())
			h, pl, err := vopen(ctx, R, g, m.env, vcid(m.env))
			ok := err == nil
			r.Logf("log  s%d g%d #%d -> %v (model %v)", m.sender, m.group, m.counter, ok, want)
			if want && !ok {
				r.Violate("log-path", "log-open-refused-but-openable", "message counter %d of sender %d is openable through the log by the ratchet contract but was refused after push deliveries: %v", m.counter, m.sender, err)
				return
			}
			if ok {
				if !bytes.Equal(pl, m.tag) || h.Counter != m.counter {
					r.Violate("log-path", "wrong-payload", "log open returned a different payload")
					return
				}
				if !want {
					if m.counter <= mod.c {
						r.Violate("log-path", "opened-before-announcement", "message counter %d sealed before the announcement (c=%d) opened", m.counter, mod.c)
						return
					}
					mod.forceOpen(m.counter, vcid(m.env).String())
				}
				logOpened[mi] = true
				// the message store updates the reference window after a log delivery (store_message.go processMessage)
				if err := R.st.UpdateOutOfStoreGroupReferences(ctx, h.DevicePk, h.Counter, g); err != nil {
					r.Infra("update refs: %v", err)
					return
				}
				last[k] = m.counter
			}
		case a <= 7: // push delivery
			payload := m.push
			fault := ""
			switch r.Pick("pushfault", 8) {
			case 6:
				fault = "bitflip"
				payload = append([]byte(nil), m.push...)
				bit := r.Int("bit", 0, len(payload)*8-1)
				payload[bit/8] ^= 1 << (bit % 8)
			case 7:
				fault = "unknown-ref"
				env := &protocoltypes.OutOfStoreMessageEnvelope{}
				_ = proto.Unmarshal(m.push, env)
				env.GroupReference = kernel.DetBytes(uint64(st)+1, len(env.GroupReference))
				payload, _ = proto.Marshal(env)
			}
			if fault != "" {
				r.Fault("push_" + fault)
			}
			logKnows := mod.opened[vcid(m.env).String()] || mod.k[m.counter]
			inRef := m.counter+uint64(n) > last[k]+1 && m.counter+2 <= last[k]+uint64(n) // strictly inside [last-n, last+n)
			oosm, gg, clear, already, err := R.st.OpenOutOfStoreMessage(ctx, payload)
			ok := err == nil
			r.Logf("push s%d g%d #%d fault=%q -> %v (log-openable %v, inside ref window %v, last=%d)", m.sender, m.group, m.counter, fault, ok, logKnows, inRef, last[k])
			if logKnows && inRef {
				r.Probe("push_must_open")
			}
			if m.counter+uint64(n) == last[k] || m.counter == last[k]+uint64(n)-1 || m.counter == last[k]+uint64(n) {
				r.Probe("reference_window_edge")
			}
			if ok {
				var em protocoltypes.EncryptedMessage
				_ = proto.Unmarshal(clear, &em)
				if fault == "unknown-ref" {
					r.Violate("push", "unknown-reference-accepted", "a push payload with an unknown group reference was opened")
					return
				}
				if !bytes.Equal(em.Plaintext, m.tag) || oosm.Counter != m.counter || !bytes.Equal(oosm.DevicePk, sdev) || gg == nil || !bytes.Equal(gg.PublicKey, g.PublicKey) {
					r.Violate("push", "wrong-message", "push payload of message counter %d opened to payload %q, device %x, counter %d (fault %q)", m.counter, em.Plaintext, oosm.DevicePk[:4], oosm.Counter, fault)
					return
				}
				if already != logOpened[mi] {
					r.Violate("push", "already-received-flag", "push payload of message counter %d reports AlreadyReceived=%v but the log path had opened that entry: %v", m.counter, already, logOpened[mi])
					return
				}
				last[k] = m.counter
				r.Probe("push_opened")
			} else if fault == "" && logKnows && inRef {
				r.Violate("push", "push-refused-but-openable", "push payload of message counter %d (sender %d) is refused although the message is openable through the log and its counter lies inside the reference window around %d (N=%d): %v", m.counter, m.sender, last[k], n, err)
				return
			}
		case a == 8: // the announcement arrives again (every activation of a group replays all announcements of its log)
			if err := R.st.RegisterChainKey(ctx, g, mustDev(senders[m.sender], g), anns[k]); err != nil {
				r.Violate("log-path", "log-open-refused-but-openable", "re-delivery of the announcement of sender %d is refused: %v", m.sender, err)
				return
			}
			r.Fault("announcement_redelivered")
			r.Logf("announcement of s%d g%d delivered again", m.sender, m.group)
		default:
			if err := R.restart(); err != nil {
				r.Infra("restart: %v", err)
				return
			}
			r.Fault("receiver_restart")
			r.Logf("receiver restart")
		}
		r.Step()
	}
	if r.Failed() {
		return
	}
	// push never prevents the log path: everything the ratchet contract makes openable opens now, in order
	for mi, m := range msgs {
		k := c14key{m.sender, m.group}
		want := models[k].open(m.counter, vcid(m.env).String())
		_, pl, err := vopen(ctx, R, groups[m.group], m.env, vcid(m.env))
		if want && (err != nil || !bytes.Equal(pl, m.tag)) {
			r.Violate("log-path", "log-open-refused-but-openable", "final sweep: message %d (counter %d) must open through the log: %v", mi, m.counter, err)
			return
		}
		if err == nil && !want && m.counter > models[k].c {
			models[k].forceOpen(m.counter, vcid(m.env).String())
		}
	}
	r.Nontrivial()
}
