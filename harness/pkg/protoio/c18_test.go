//go:build verif

package protoio

import (
	"bytes"
	"encoding/binary"
	"fmt"
	"io"
	"testing"

	"google.golang.org/protobuf/proto"

	"berty.tech/weshnet/v2/internal/verifsim/kernel"
	"berty.tech/weshnet/v2/internal/verifsim/stream"
	"berty.tech/weshnet/v2/pkg/protocoltypes"
)

// C18: length-delimited framing round-trips any message sequence whatever the chunking of the byte
// stream, and enforces its bound; faults (EOF, read error, write error, oversize, malformed length)
// are errors, never panics, never corrupt earlier frames, never allocate beyond the limit.

type c18variant int

const (
	c18Varint c18variant = iota
	c18U32LE
	c18U32BE
)

func (v c18variant) String() string { return [...]string{"varint", "uint32le", "uint32be"}[v] }

func c18writer(v c18variant, w io.Writer) WriteCloser {
	switch v {
	case c18Varint:
		return NewDelimitedWriter(w)
	case c18U32LE:
		return NewUint32DelimitedWriter(w, binary.LittleEndian)
	default:
		return NewUint32DelimitedWriter(w, binary.BigEndian)
	}
}

func c18reader(v c18variant, r io.Reader, limit int) ReadCloser {
	switch v {
	case c18Varint:
		return NewDelimitedReader(r, limit)
	case c18U32LE:
		return NewUint32DelimitedReader(r, binary.LittleEndian, limit)
	default:
		return NewUint32DelimitedReader(r, binary.BigEndian, limit)
	}
}

func c18bufcap(rd ReadCloser) int {
	switch x := rd.(type) {
	case *varintReader:
		return cap(x.buf)
	case *uint32Reader:
		return cap(x.buf)
	}
	return -1
}

// c18msg builds a message whose encoding has (as close as possible to) `want` bytes.
func c18msg(want int, seed uint64) *protocoltypes.AppMessageSend_Request {
	if want <= 0 {
		return &protocoltypes.AppMessageSend_Request{}
	}
	for gp := 0; gp <= 3; gp++ {
		for n := want; n >= 0 && n >= want-8; n-- {
			m := &protocoltypes.AppMessageSend_Request{}
			if gp > 0 {
				m.GroupPk = kernel.DetBytes(seed^0xabcdef, gp)
			}
			if n > 0 {
				m.Payload = kernel.DetBytes(seed, n)
			}
			if proto.Size(m) == want {
				return m
			}
		}
	}
	m := &protocoltypes.AppMessageSend_Request{Payload: kernel.DetBytes(seed, max(want-4, 1))}
	return m
}

func lenPrefix(v c18variant, n uint64) []byte {
	switch v {
	case c18Varint:
		b := make([]byte, binary.MaxVarintLen64)
		return b[:binary.PutUvarint(b, n)]
	case c18U32LE:
		b := make([]byte, 4)
		binary.LittleEndian.PutUint32(b, uint32(n))
		return b
	default:
		b := make([]byte, 4)
		binary.BigEndian.PutUint32(b, uint32(n))
		return b
	}
}

func TestVerifC18(t *testing.T) {
	kernel.Component("protoio varint/uint32 writers and readers", "real")
	kernel.Component("byte stream (chunking, EOF, read/write errors)", "simulated (SimStream)")
	kernel.Check(t, "C18", func(r *kernel.Run) {
		if r.Pick("mode", 4) == 3 {
			c18garbage(r)
			return
		}
		c18roundtrip(r)
	})
}

func c18roundtrip(r *kernel.Run) {
	v := c18variant(r.Pick("variant", 3))
	limit := []int{8, 64, 300, 4096}[r.Pick("limit", 4)]
	nframes := r.Int("nframes", 0, 16)
	r.Logf("roundtrip variant=%s limit=%d frames=%d", v, limit, nframes)

	type frame struct {
		msg  *protocoltypes.AppMessageSend_Request
		size int
		end  int // end offset in the stream
	}
	var frames []frame
	wfail := -1
	if r.Pick("writefault", 6) == 5 {
		wfail = r.Int("writefault_at", 0, 200)
	}
	sw := &stream.Writer{FailAt: wfail}
	wr := c18writer(v, sw)
	wroteAll := true
	for i := 0; i < nframes; i++ {
		var want int
		switch r.Pick("sizeclass", 6) {
		case 0:
			want = r.Int("small", 0, 12)
		case 1:
			want = limit
		case 2:
			want = limit - 1
		case 3:
			want = limit + 1
		case 4:
			want = r.Int("any", 0, limit+1)
		default:
			want = 0
		}
		m := c18msg(want, r.Uint64("payload"))
		sz := proto.Size(m)
		before := len(sw.Buf)
		err := wr.WriteMsg(m)
		if err != nil {
			if wfail < 0 {
				r.Violate("write", "write-error-without-fault", "WriteMsg failed without injected fault: %v", err)
				return
			}
			r.Fault("write_error")
			if before < wfail {
				r.Probe("fault_inside_frame")
			}
			r.Logf("write fault at stream offset %d during frame %d (size %d)", wfail, i, sz)
			wroteAll = false
			break
		}
		frames = append(frames, frame{m, sz, len(sw.Buf)})
		r.Logf("frame %d size=%d end=%d", i, sz, len(sw.Buf))
	}
	_ = wroteAll
	data := sw.Buf

	// reader side: chunking and fault
	rfail, rerr := -1, error(nil)
	switch r.Pick("readfault", 4) {
	case 2:
		rfail, rerr = r.Int("eof_at", 0, len(data)), io.EOF
	case 3:
		rfail, rerr = r.Int("err_at", 0, len(data)), stream.ErrInjected
	}
	chunkMode := r.Pick("chunkmode", 4) // 0 whole, 1 one byte, 2 fixed k, 3 drawn per read
	k := 1
	if chunkMode == 2 {
		k = r.Int("k", 2, 9)
	}
	var plan []int
	if chunkMode == 3 {
		plan = make([]int, 64)
		for i := range plan {
			plan[i] = r.Int("chunk", 1, 17)
		}
	}
	pi := 0
	sr := &stream.Reader{Data: data, FailAt: rfail, FailErr: rerr, Chunk: func() int {
		switch chunkMode {
		case 0:
			return 1 << 30
		case 1:
			return 1
		case 2:
			return k
		default:
			c := plan[pi%len(plan)]
			pi++
			return c
		}
	}}
	if chunkMode != 0 {
		r.Nontrivial()
	}
	if rfail >= 0 {
		if rerr == io.EOF {
			r.Fault("eof_truncation")
		} else {
			r.Fault("read_error")
		}
	}
	r.Logf("read chunkmode=%d k=%d fault_at=%d err=%v streamlen=%d", chunkMode, k, rfail, rerr, len(data))
	rd := c18reader(v, sr, limit)

	effEnd := len(data) // bytes available before the first reader-side fault
	if rfail >= 0 && rfail < effEnd {
		effEnd = rfail
	}
	// callers may read every frame into the same message value (the handshake does): ReadMsg must leave in it
	// exactly the frame just read
	reuse := r.Bool("reuse_message_value")
	shared := &protocoltypes.AppMessageSend_Request{}
	if reuse {
		r.Probe("message_value_reused")
	}
	for i, f := range frames {
		got := &protocoltypes.AppMessageSend_Request{}
		if reuse {
			got = shared
		}
		err := rd.ReadMsg(got)
		if c := c18bufcap(rd); c > 2*limit+64 { // generous: allocator size-class rounding is not "allocating beyond the limit"
			r.Violate("alloc", "buffer-beyond-limit", "reader buffer capacity %d exceeds limit %d after frame %d", c, limit, i)
			return
		}
		switch {
		case f.size > limit:
			r.Fault("oversize_frame")
			if err == nil {
				r.Violate("bound", "oversize-accepted", "frame %d of %d bytes accepted with limit %d", i, f.size, limit)
				return
			}
			r.Probe("oversize_frame_rejected")
			r.Logf("frame %d oversize rejected: %v", i, err)
			return // nothing is required after the first fault
		case f.end > effEnd:
			if err == nil {
				r.Violate("truncation", "truncated-accepted", "frame %d (ends at %d) read successfully although the stream failed at %d", i, f.end, effEnd)
				return
			}
			start := f.end - f.size
			if effEnd > start-4 {
				r.Probe("fault_inside_frame")
			}
			r.Logf("frame %d hit the fault: %v", i, err)
			return
		default:
			if err != nil {
				r.Violate("roundtrip", "intact-frame-error", "frame %d (size %d, limit %d, variant %s) failed: %v", i, f.size, limit, v, err)
				return
			}
			if !proto.Equal(got, f.msg) {
				r.Violate("roundtrip", "frame-mismatch", "frame %d differs after round trip (size %d, chunkmode %d)", i, f.size, chunkMode)
				return
			}
			if f.size == limit {
				r.Probe("frame_at_limit_accepted")
			}
		}
	}
	// after the last complete frame the reader must report an error (EOF / injected / partial frame)
	got := &protocoltypes.AppMessageSend_Request{}
	if err := rd.ReadMsg(got); err == nil {
		r.Violate("eof", "read-past-end", "ReadMsg succeeded past the last complete frame (stream %d bytes, %d frames)", len(data), len(frames))
		return
	}
	if c := c18bufcap(rd); c > 2*limit+64 { // generous: allocator size-class rounding is not "allocating beyond the limit"
		r.Violate("alloc", "buffer-beyond-limit", "reader buffer capacity %d exceeds limit %d at end", c, limit)
	}
}

func c18garbage(r *kernel.Run) {
	v := c18variant(r.Pick("variant", 3))
	limit := []int{8, 64, 300, 4096}[r.Pick("limit", 4)]
	var data []byte
	var declared uint64 // kind 1: the length the first prefix declares
	kind := r.Pick("kind", 5)
	switch kind {
	case 0: // random bytes
		data = r.Bytes("garbage", 0, 64)
	case 1: // huge declared length, no body (or a body as long as the low 32 bits of the length say)
		huge := []uint64{1 << 31, 1<<31 - 1, 1 << 32, 1<<32 - 1, 1 << 62, 1 << 63, 1<<64 - 1, uint64(limit) + 1, uint64(limit),
			1<<32 + 3, 1<<40 + 3, 5 << 32, 1<<32 + uint64(limit)}[r.Pick("huge", 13)]
		data = append(lenPrefix(v, huge), r.Bytes("tail", 0, 16)...)
		declared = huge
		if v != c18Varint {
			declared = uint64(uint32(huge)) // what the 4-byte prefix can say
		}
	case 2: // over-long varint
		n := r.Int("cont", 9, 14)
		data = bytes.Repeat([]byte{0xff}, n)
		data = append(data, 0x01)
	case 3: // valid frame followed by garbage
		m := c18msg(r.Int("sz", 0, limit), r.Uint64("payload"))
		var bb bytes.Buffer
		_ = c18writer(v, &bb).WriteMsg(m)
		data = append(bb.Bytes(), r.Bytes("garbage", 0, 32)...)
	default: // length equal to limit+1 with a full body present
		body := kernel.DetBytes(r.Uint64("payload"), limit+1)
		data = append(lenPrefix(v, uint64(limit+1)), body...)
	}
	r.Fault(fmt.Sprintf("garbage_kind_%d", kind))
	r.Probe("garbage_input")
	r.Logf("garbage variant=%s limit=%d kind=%d len=%d head=%x", v, limit, kind, len(data), data[:min(len(data), 12)])
	one := r.Bool("bytewise")
	sr := &stream.Reader{Data: data, FailAt: -1, Chunk: func() int {
		if one {
			return 1
		}
		return 1 << 30
	}}
	rd := c18reader(v, sr, limit)
	okFrames := 0
	for i := 0; i < len(data)+2; i++ {
		got := &protocoltypes.AppMessageSend_Request{}
		err := rd.ReadMsg(got)
		if c := c18bufcap(rd); c > 2*limit+64 { // generous: allocator size-class rounding is not "allocating beyond the limit"
			r.Violate("alloc", "buffer-beyond-limit", "reader buffer capacity %d exceeds limit %d on garbage input %x", c, limit, data[:min(len(data), 24)])
			return
		}
		if err != nil {
			r.Logf("garbage: %d frames then error %v", okFrames, err)
			if kind == 4 && okFrames == 0 {
				r.Probe("oversize_frame_rejected")
			}
			return
		}
		okFrames++
		if kind == 1 && okFrames == 1 && declared > uint64(limit) {
			r.Violate("bound", "oversize-accepted", "a frame whose length prefix declares %d bytes was accepted with limit %d (variant %s)", declared, limit, v)
			return
		}
		if kind == 4 {
			r.Violate("bound", "oversize-accepted", "frame of limit+1=%d bytes accepted", limit+1)
			return
		}
	}
	r.Violate("eof", "read-past-end", "reader returned %d frames from %d bytes without ever failing", okFrames, len(data))
}
