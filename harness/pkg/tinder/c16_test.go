//go:build verif

package tinder

import (
	"context"
	"fmt"
	"sort"
	"strings"
	"sync/atomic"
	"testing"
	"time"

	"github.com/libp2p/go-libp2p/core/peer"
	ma "github.com/multiformats/go-multiaddr"

	"berty.tech/weshnet/v2/internal/verifsim/kernel"
	"berty.tech/weshnet/v2/internal/verifsim/sched"
)

// C16 (discovery peer cache part): WaitForPeerUpdate never deadlocks and never misses an update.

func TestVerifC16PeerCache(t *testing.T) {
	kernel.Component("tinder peersCache + internal/notify", "real (instrumented copies of the working tree)")
	kernel.Check(t, "C16", func(r *kernel.Run) {
		strategy := r.Pick("strategy", 3)
		r.Words(384)
		res := sched.Bubble(t, func() { c16peercache(r, strategy) })
		if res != "" && !r.Failed() {
			r.Infra("bubble panicked: %s", res)
		}
	})
}

func c16peercache(r *kernel.Run, strategy int) {
	c := newPeerCache()
	nwaiters := 1 + r.Choose(2)
	ctxs := make([]context.Context, nwaiters)
	cancels := make([]context.CancelFunc, nwaiters)
	for i := range ctxs {
		ctxs[i], cancels[i] = context.WithCancel(context.Background())
		defer cancels[i]()
	}
	cancelTarget := r.Choose(nwaiters + 1)
	nupd := 1 + r.Choose(3)
	withCancel := r.Choose(4) == 3
	withReader := r.Choose(3) == 2
	addrs := []ma.Multiaddr{ma.StringCast("/ip4/127.0.0.1/tcp/1"), ma.StringCast("/ip4/127.0.0.1/tcp/2"), ma.StringCast("/ip4/127.0.0.1/tcp/3")}
	type upd struct {
		topic string
		p     peer.ID
		addr  int
	}
	plan := make([]upd, nupd)
	for i := range plan {
		plan[i] = upd{topic: []string{"t0", "t1"}[r.Choose(2)], p: peer.ID([]string{"p0", "p1"}[r.Choose(2)]), addr: r.Choose(3)}
	}
	r.Logf("peercache: waiters=%d updates=%v cancel=%v reader=%v strategy=%d", nwaiters, plan, withCancel, withReader, strategy)
	s := sched.New(r.Choose, strategy, func(f string, a ...any) { r.Logf(f, a...); r.Step() })
	var cancelled, updaterDone atomic.Bool
	cancelledW := make([]atomic.Bool, nwaiters)
	currents := make([]PeersUpdate, nwaiters)
	topics := make([]string, nwaiters)
	for i := 0; i < nwaiters; i++ {
		i := i
		currents[i] = PeersUpdate{}
		topics[i] = "t0"
		if i == 1 && r.Choose(3) == 2 {
			topics[i] = "t1"
		}
		s.Go(fmt.Sprintf("waiter%d", i), func() {
			for round := 0; round < 4; round++ {
				updated, ok := c.WaitForPeerUpdate(ctxs[i], topics[i], currents[i])
				if !ok {
					if !cancelledW[i].Load() {
						r.Violate("cancel", "negative-result-without-cancel", "waiter%d got ok=false without cancellation", i)
					}
					return
				}
				if len(updated) == 0 {
					r.Violate("spurious", "empty-update", "waiter%d returned ok=true with no updated peer", i)
					return
				}
			}
		})
	}
	s.Go("updater", func() {
		for _, u := range plan {
			c.UpdatePeer(u.topic, peer.AddrInfo{ID: u.p, Addrs: []ma.Multiaddr{addrs[u.addr]}})
		}
		updaterDone.Store(true)
	})
	if withReader {
		s.Go("reader", func() { _ = c.GetPeersForTopics("t0"); _ = c.GetPeers(peer.ID("p0")) })
	}
	if withCancel {
		s.Go("canceller", func() {
			cancelled.Store(true)
			for i := range cancels {
				if cancelTarget == nwaiters || cancelTarget == i {
					cancelledW[i].Store(true)
					cancels[i]()
				}
			}
		})
	}
	for s.Steps < 800 && s.Step() {
		time.Sleep(time.Microsecond) // the fake clock moves between steps: update timestamps never tie
	}
	st := s.Status()
	if s.Preemptions > 0 {
		r.Nontrivial()
		r.Fault("preemption")
	}
	if cancelled.Load() {
		r.Fault("cancellation")
	}
	if len(st.LockBlocked) > 0 {
		var desc []string
		for _, t := range st.LockBlocked {
			desc = append(desc, fmt.Sprintf("%s waits at %s for a lock held by %s", t.Label, t.Site, s.Holder(t)))
		}
		sort.Strings(desc)
		r.Violate("deadlock", "peercache-deadlock", "deadlock: %s", strings.Join(desc, "; "))
	}
	for _, t := range st.RealBlocked {
		if !strings.HasPrefix(t.Label, "waiter") {
			r.Violate("stuck", "task-stuck", "task %s is blocked in %s", t.Label, t.BlockedIn())
			continue
		}
		r.Probe("waiter_blocked_at_end")
		var wi int
		fmt.Sscanf(t.Label, "waiter%d", &wi)
		if cancelledW[wi].Load() {
			r.Violate("cancel", "cancelled-wait-blocked", "%s: context cancelled but WaitForPeerUpdate is still blocked in %s", t.Label, t.BlockedIn())
			continue
		}
		if !updaterDone.Load() {
			continue
		}
		if tu, ok := c.topics[topics[wi]]; ok {
			var ps []peer.ID
			for p := range tu.peerUpdate {
				ps = append(ps, p)
			}
			sort.Slice(ps, func(i, j int) bool { return ps[i] < ps[j] })
			for _, p := range ps {
				at := tu.peerUpdate[p]
				if seen, ok := currents[wi][p]; !ok || at.After(seen) {
					r.Violate("missed-update", "waiter-blocked-with-stale-view", "%s is blocked in %s although peer %s of topic %s was updated after what the waiter last saw; the updater has finished",
						t.Label, t.BlockedIn(), string(p), topics[wi])
				}
			}
		}
	}
	for _, c := range cancels {
		c()
	}
	s.Abort()
	r.Probe("peercache_run")
}
