//go:build verif

package lifecycle

import (
	"context"
	"fmt"
	"sort"
	"strings"
	"sync/atomic"
	"testing"

	"berty.tech/weshnet/v2/internal/verifsim/kernel"
	"berty.tech/weshnet/v2/internal/verifsim/sched"
)

// C16 (lifecycle manager part): the notify primitive shared with the lifecycle manager never
// deadlocks and never misses a state change; cancelled waits return false.

func TestVerifC16Lifecycle(t *testing.T) {
	kernel.Component("lifecycle.Manager + internal/notify", "real (instrumented copies of the working tree)")
	kernel.Check(t, "C16", func(r *kernel.Run) {
		strategy := r.Pick("strategy", 3)
		r.Words(384)
		res := sched.Bubble(t, func() { c16lifecycle(r, strategy) })
		if res != "" && !r.Failed() {
			r.Infra("bubble panicked: %s", res)
		}
	})
}

func c16lifecycle(r *kernel.Run, strategy int) {
	m := NewManager(StateActive)
	nwaiters := 1 + r.Choose(2)
	ctxs := make([]context.Context, nwaiters)
	cancels := make([]context.CancelFunc, nwaiters)
	for i := range ctxs {
		ctxs[i], cancels[i] = context.WithCancel(context.Background())
		defer cancels[i]()
	}
	cancelTarget := r.Choose(nwaiters + 1)
	nupd := 1 + r.Choose(3)
	withCancel := r.Choose(4) == 3
	withTask := r.Choose(3) == 2
	plan := make([]State, nupd)
	for i := range plan {
		plan[i] = State(r.Choose(2))
	}
	r.Logf("lifecycle: waiters=%d updates=%v cancel=%v task=%v strategy=%d", nwaiters, plan, withCancel, withTask, strategy)
	s := sched.New(r.Choose, strategy, func(f string, a ...any) { r.Logf(f, a...); r.Step() })
	var cancelled, updaterDone atomic.Bool
	cancelledW := make([]atomic.Bool, nwaiters)
	sources := make([]State, nwaiters)
	results := make([]atomic.Int32, nwaiters) // 0 pending, 1 true, 2 false
	for i := 0; i < nwaiters; i++ {
		i := i
		sources[i] = State(r.Choose(2))
		useTask := withTask && i == 0
		s.Go(fmt.Sprintf("waiter%d", i), func() {
			if useTask {
				tk, ok := m.TaskWaitForStateChange(ctxs[i], sources[i])
				if ok {
					tk.Done()
					results[i].Store(1)
				} else {
					results[i].Store(2)
				}
				return
			}
			if m.WaitForStateChange(ctxs[i], sources[i]) {
				results[i].Store(1)
			} else {
				results[i].Store(2)
			}
		})
	}
	s.Go("updater", func() {
		for _, st := range plan {
			m.UpdateState(st)
		}
		updaterDone.Store(true)
	})
	if withTask {
		s.Go("taskwaiter", func() { m.WaitForTasks() })
	}
	if withCancel {
		s.Go("canceller", func() {
			cancelled.Store(true)
			for i := range cancels {
				if cancelTarget == nwaiters || cancelTarget == i {
					cancelledW[i].Store(true)
					cancels[i]()
				}
			}
		})
	}
	for s.Steps < 600 && s.Step() {
	}
	st := s.Status()
	if s.Preemptions > 0 {
		r.Nontrivial()
		r.Fault("preemption")
	}
	if cancelled.Load() {
		r.Fault("cancellation")
	}
	if len(st.LockBlocked) > 0 {
		var desc []string
		for _, t := range st.LockBlocked {
			desc = append(desc, fmt.Sprintf("%s waits at %s for a lock held by %s", t.Label, t.Site, s.Holder(t)))
		}
		sort.Strings(desc)
		r.Violate("deadlock", "lifecycle-deadlock", "deadlock: %s", strings.Join(desc, "; "))
	}
	for _, t := range st.RealBlocked {
		if !strings.HasPrefix(t.Label, "waiter") {
			r.Violate("stuck", "task-stuck", "task %s is blocked in %s", t.Label, t.BlockedIn())
			continue
		}
		r.Probe("waiter_blocked_at_end")
		var wi int
		fmt.Sscanf(t.Label, "waiter%d", &wi)
		if cancelledW[wi].Load() {
			r.Violate("cancel", "cancelled-wait-blocked", "%s: context cancelled but the wait is still blocked in %s", t.Label, t.BlockedIn())
		} else if updaterDone.Load() && m.currentState != sources[wi] {
			r.Violate("missed-update", "waiter-blocked-with-stale-view", "%s waits for a change from state %d, is blocked in %s, but the current state is %d and the updater has finished",
				t.Label, sources[wi], t.BlockedIn(), m.currentState)
		}
	}
	// a wait that returned true must have had a reason: the state differed from its source at some point,
	// which requires the source to differ from the initial state or some update to differ from the source
	for i := range results {
		if results[i].Load() == 1 {
			reason := sources[i] != StateActive
			for _, p := range plan {
				if p != sources[i] {
					reason = true
				}
			}
			if !reason {
				r.Violate("spurious", "wait-returned-without-change", "waiter%d returned true although the state never differed from %d", i, sources[i])
			}
		}
		if results[i].Load() == 2 && !cancelledW[i].Load() {
			r.Violate("cancel", "negative-result-without-cancel", "waiter%d returned false although its context was never cancelled", i)
		}
	}
	for _, c := range cancels {
		c()
	}
	s.Abort()
	r.Probe("lifecycle_run")
}
