#!/usr/bin/env python3
"""prints the markdown table of seeded changes (from /verif/seeded/*/meta.json) for DESIGN.md section 9.2"""
import json, glob, os
rows = []
for d in sorted(glob.glob(os.path.join(os.path.dirname(__file__), "..", "seeded", "*"))):
    m = json.load(open(os.path.join(d, "meta.json")))
    name = os.path.basename(d)
    det = m["detected_by"]
    first = "no" if det.lower().startswith(("missed", "first version")) else ("by another check" if det.lower().startswith("not caught") else "yes")
    rows.append("| %s | %s | %s | %s |" % (name, m["needs_to_manifest"].replace("|", "/"), first, det.replace("|", "/")))
print("| Change | What it does / what it needs to manifest | Caught by the check as it was | Outcome |")
print("|---|---|---|---|")
print("\n".join(rows))
