package main

import (
	"go/ast"
	"go/parser"
	"go/token"
	"os"
	"path/filepath"
	"strings"
)

// Map-range rewriting. `for k, v := range m` over a map is rewritten to iterate over
// vs.SortedKeys(m) (seeded order, see sched.SortedKeys). The instrumenter has no go/types information;
// "m is a map" is decided by a small syntactic type inference over the declarations of the package:
// declared types of variables, parameters, receivers and struct fields, composite literals, make(),
// type assertions, index expressions on maps/slices, and the first result of package functions and
// methods. Anything it cannot decide is left alone: the iteration then keeps the runtime's order, which
// costs repeatability, never soundness.

type pkgInfo struct {
	types   map[string]ast.Expr            // named type -> its type expression
	structs map[string]map[string]ast.Expr // struct name -> field -> type
	funcs   map[string][]ast.Expr          // function name -> first result type per declaration (nil: none)
	methods map[string]ast.Expr            // "Recv.name" -> first result type
}

func loadPkgInfo(file string) *pkgInfo {
	pi := &pkgInfo{types: map[string]ast.Expr{}, structs: map[string]map[string]ast.Expr{}, funcs: map[string][]ast.Expr{}, methods: map[string]ast.Expr{}}
	dir := filepath.Dir(file)
	ents, err := os.ReadDir(dir)
	if err != nil {
		return pi
	}
	fset := token.NewFileSet()
	for _, e := range ents {
		n := e.Name()
		if !strings.HasSuffix(n, ".go") || strings.HasSuffix(n, "_test.go") {
			continue
		}
		f, err := parser.ParseFile(fset, filepath.Join(dir, n), nil, parser.SkipObjectResolution)
		if err != nil {
			continue
		}
		for _, d := range f.Decls {
			switch v := d.(type) {
			case *ast.GenDecl:
				if v.Tok != token.TYPE {
					continue
				}
				for _, sp := range v.Specs {
					ts := sp.(*ast.TypeSpec)
					pi.types[ts.Name.Name] = ts.Type
					if st, ok := ts.Type.(*ast.StructType); ok {
						fields := map[string]ast.Expr{}
						for _, fl := range st.Fields.List {
							for _, n := range fl.Names {
								fields[n.Name] = fl.Type
							}
						}
						pi.structs[ts.Name.Name] = fields
					}
				}
			case *ast.FuncDecl:
				var first ast.Expr
				if v.Type.Results != nil && len(v.Type.Results.List) > 0 {
					first = v.Type.Results.List[0].Type
				}
				if v.Recv != nil && len(v.Recv.List) == 1 {
					if rn := typeName(v.Recv.List[0].Type); rn != "" {
						pi.methods[rn+"."+v.Name.Name] = first
					}
					continue
				}
				pi.funcs[v.Name.Name] = append(pi.funcs[v.Name.Name], first)
			}
		}
	}
	return pi
}

// typeName gives the package-local named type behind T, *T, (T), T[...].
func typeName(t ast.Expr) string {
	switch v := t.(type) {
	case *ast.Ident:
		return v.Name
	case *ast.StarExpr:
		return typeName(v.X)
	case *ast.ParenExpr:
		return typeName(v.X)
	case *ast.IndexExpr:
		return typeName(v.X)
	case *ast.IndexListExpr:
		return typeName(v.X)
	}
	return ""
}

// underlying resolves named types of the package (a few levels).
func (pi *pkgInfo) underlying(t ast.Expr) ast.Expr {
	for i := 0; i < 4 && t != nil; i++ {
		switch v := t.(type) {
		case *ast.ParenExpr:
			t = v.X
			continue
		case *ast.Ident:
			if u, ok := pi.types[v.Name]; ok {
				t = u
				continue
			}
		}
		break
	}
	return t
}

func (pi *pkgInfo) typeIsMap(t ast.Expr) bool {
	_, ok := pi.underlying(t).(*ast.MapType)
	return ok
}

type rangeRewriter struct {
	rw  *rewriter
	pi  *pkgInfo
	env map[string]ast.Expr // identifier -> type expression (nil: unknown)
}

// typeOf is the syntactic type of an expression, nil when unknown.
func (rr *rangeRewriter) typeOf(e ast.Expr) ast.Expr {
	switch v := e.(type) {
	case *ast.ParenExpr:
		return rr.typeOf(v.X)
	case *ast.Ident:
		return rr.env[v.Name]
	case *ast.CompositeLit:
		return v.Type
	case *ast.TypeAssertExpr:
		return v.Type
	case *ast.UnaryExpr:
		if v.Op == token.AND {
			if t := rr.typeOf(v.X); t != nil {
				return &ast.StarExpr{X: t}
			}
		}
	case *ast.StarExpr:
		if p, ok := rr.pi.underlying(rr.typeOf(v.X)).(*ast.StarExpr); ok {
			return p.X
		}
	case *ast.IndexExpr:
		switch t := rr.pi.underlying(rr.typeOf(v.X)).(type) {
		case *ast.MapType:
			return t.Value
		case *ast.ArrayType:
			return t.Elt
		}
	case *ast.SelectorExpr:
		if sn := typeName(rr.typeOf(v.X)); sn != "" {
			if fields, ok := rr.pi.structs[sn]; ok {
				return fields[v.Sel.Name]
			}
		}
	case *ast.CallExpr:
		switch f := v.Fun.(type) {
		case *ast.Ident:
			if f.Name == "make" && len(v.Args) > 0 {
				return v.Args[0]
			}
			if ds := rr.pi.funcs[f.Name]; len(ds) == 1 {
				return ds[0]
			}
		case *ast.SelectorExpr:
			if rn := typeName(rr.typeOf(f.X)); rn != "" {
				if t, ok := rr.pi.methods[rn+"."+f.Sel.Name]; ok {
					return t
				}
			}
		case *ast.ArrayType, *ast.MapType: // conversion
			return f
		}
	}
	return nil
}

func (rr *rangeRewriter) exprIsMap(e ast.Expr) bool {
	t := rr.typeOf(e)
	return t != nil && rr.pi.typeIsMap(t)
}

func (rr *rangeRewriter) collectEnv(fd *ast.FuncDecl) {
	rr.env = map[string]ast.Expr{}
	addFields := func(fl *ast.FieldList) {
		if fl == nil {
			return
		}
		for _, f := range fl.List {
			for _, n := range f.Names {
				rr.env[n.Name] = f.Type
			}
		}
	}
	addFields(fd.Recv)
	addFields(fd.Type.Params)
	addFields(fd.Type.Results)
	define := func(id *ast.Ident, t ast.Expr) {
		if id == nil || id.Name == "_" {
			return
		}
		if _, seen := rr.env[id.Name]; !seen {
			rr.env[id.Name] = t
		}
	}
	ast.Inspect(fd.Body, func(n ast.Node) bool {
		switch v := n.(type) {
		case *ast.FuncLit:
			addFields(v.Type.Params)
		case *ast.AssignStmt:
			if v.Tok != token.DEFINE {
				break
			}
			for i, l := range v.Lhs {
				id, ok := l.(*ast.Ident)
				if !ok {
					continue
				}
				if len(v.Rhs) == len(v.Lhs) {
					define(id, rr.typeOf(v.Rhs[i]))
				} else if i == 0 && len(v.Rhs) == 1 {
					define(id, rr.typeOf(v.Rhs[0])) // x, ok := m[k] / x, err := f() / x, ok := y.(T)
				}
			}
		case *ast.RangeStmt:
			if v.Tok != token.DEFINE {
				break
			}
			switch t := rr.pi.underlying(rr.typeOf(v.X)).(type) {
			case *ast.MapType:
				if id, ok := v.Key.(*ast.Ident); ok {
					define(id, t.Key)
				}
				if id, ok := v.Value.(*ast.Ident); ok {
					define(id, t.Value)
				}
			case *ast.ArrayType:
				if id, ok := v.Value.(*ast.Ident); ok {
					define(id, t.Elt)
				}
			}
		case *ast.DeclStmt:
			if gd, ok := v.Decl.(*ast.GenDecl); ok && gd.Tok == token.VAR {
				for _, sp := range gd.Specs {
					vs := sp.(*ast.ValueSpec)
					for i, n := range vs.Names {
						if vs.Type != nil {
							define(n, vs.Type)
						} else if i < len(vs.Values) {
							define(n, rr.typeOf(vs.Values[i]))
						}
					}
				}
			}
		}
		return true
	})
}

// rewriteList replaces qualifying range statements of one statement list.
func (rr *rangeRewriter) rewriteList(list []ast.Stmt) []ast.Stmt {
	for i, s := range list {
		rs, ok := s.(*ast.RangeStmt)
		if !ok || rs.Tok != token.DEFINE || !rr.exprIsMap(rs.X) {
			continue
		}
		rw := rr.rw
		rw.n++
		rw.stats["map_range"]++
		m := rw.temp("m")
		var key *ast.Ident
		if id, ok := rs.Key.(*ast.Ident); ok && id.Name != "_" {
			key = id
		} else {
			key = rw.temp("k")
		}
		okv := rw.temp("ok")
		var pre []ast.Stmt
		valIdent, hasVal := rs.Value.(*ast.Ident)
		if hasVal && valIdent.Name != "_" {
			pre = append(pre, &ast.AssignStmt{Lhs: []ast.Expr{valIdent, okv}, Tok: token.DEFINE, Rhs: []ast.Expr{&ast.IndexExpr{X: m, Index: key}}})
		} else {
			pre = append(pre, &ast.AssignStmt{Lhs: []ast.Expr{ast.NewIdent("_"), okv}, Tok: token.DEFINE, Rhs: []ast.Expr{&ast.IndexExpr{X: m, Index: key}}})
		}
		// an entry deleted by an earlier iteration is skipped, as the language does
		pre = append(pre, &ast.IfStmt{Cond: &ast.UnaryExpr{Op: token.NOT, X: okv}, Body: &ast.BlockStmt{List: []ast.Stmt{&ast.BranchStmt{Tok: token.CONTINUE}}}})
		body := &ast.BlockStmt{List: append(pre, rs.Body.List...)}
		loop := &ast.RangeStmt{Key: ast.NewIdent("_"), Value: key, Tok: token.DEFINE, X: vsCall("SortedKeys", m), Body: body}
		list[i] = &ast.BlockStmt{List: []ast.Stmt{
			&ast.AssignStmt{Lhs: []ast.Expr{m}, Tok: token.DEFINE, Rhs: []ast.Expr{rs.X}},
			loop,
		}}
	}
	return list
}

func rewriteRanges(rw *rewriter, f *ast.File, file string) {
	rr := &rangeRewriter{rw: rw, pi: loadPkgInfo(file)}
	for _, d := range f.Decls {
		fd, ok := d.(*ast.FuncDecl)
		if !ok || fd.Body == nil {
			continue
		}
		rr.collectEnv(fd)
		ast.Inspect(fd.Body, func(n ast.Node) bool {
			switch v := n.(type) {
			case *ast.BlockStmt:
				v.List = rr.rewriteList(v.List)
			case *ast.CaseClause:
				v.Body = rr.rewriteList(v.Body)
			case *ast.CommClause:
				v.Body = rr.rewriteList(v.Body)
			}
			return true
		})
	}
}
