// Command instrument rewrites one Go source file of berty/weshnet so that every lock, unlock,
// channel operation, select and goroutine start goes through the cooperative scheduler package
// (berty.tech/weshnet/v2/internal/verifsim/sched). It is purely syntactic (go/ast, no type
// information): see DESIGN.md section 4.2. The output is only ever used through `go build -overlay`.
package main

import (
	"flag"
	"fmt"
	"go/ast"
	"go/parser"
	"go/printer"
	"go/token"
	"os"
	"strconv"
)

var schedPath = "berty.tech/weshnet/v2/internal/verifsim/sched"

const orderPath = "berty.tech/weshnet/v2/pkg/verifsimorder"

type rewriter struct {
	fset  *token.FileSet
	rel   string
	n     int
	tmp   int
	stats map[string]int
}

func main() {
	in := flag.String("in", "", "input file")
	out := flag.String("out", "", "output file")
	rel := flag.String("rel", "", "path shown in sites")
	rangesOnly := flag.Bool("ranges-only", false, "only rewrite range statements over maps (seeded iteration order), no scheduling points")
	orderPkg := flag.Bool("order-pkg", false, "import the standalone map-order package instead of the scheduler package (files of dependencies)")
	flag.Parse()
	fset := token.NewFileSet()
	f, err := parser.ParseFile(fset, *in, nil, parser.ParseComments)
	if err != nil {
		fmt.Fprintln(os.Stderr, err)
		os.Exit(1)
	}
	rw := &rewriter{fset: fset, rel: *rel, stats: map[string]int{}}
	// comments are dropped from function bodies we touch only implicitly: the printer keeps them by position;
	// to avoid misplaced comments corrupting code we strip all comments except build constraints / package doc.
	var keep []*ast.CommentGroup
	for _, cg := range f.Comments {
		if cg.End() < f.Package {
			keep = append(keep, cg)
		}
	}
	f.Comments = keep
	rewriteRanges(rw, f, *in)
	for _, d := range f.Decls {
		if *rangesOnly {
			break
		}
		if fd, ok := d.(*ast.FuncDecl); ok && fd.Body != nil {
			rw.block(fd.Body)
		}
		// function literals in package-level var initialisers are left alone
	}
	if rw.n > 0 {
		if *orderPkg {
			schedPath = orderPath
		}
		addImport(f)
	}
	of, err := os.Create(*out)
	if err != nil {
		fmt.Fprintln(os.Stderr, err)
		os.Exit(1)
	}
	defer of.Close()
	cfg := printer.Config{Mode: printer.UseSpaces | printer.TabIndent, Tabwidth: 8}
	if err := cfg.Fprint(of, fset, f); err != nil {
		fmt.Fprintln(os.Stderr, err)
		os.Exit(1)
	}
	fmt.Printf("%s: %d rewrites %v\n", *rel, rw.n, rw.stats)
}

func addImport(f *ast.File) {
	spec := &ast.ImportSpec{Name: ast.NewIdent("vs"), Path: &ast.BasicLit{Kind: token.STRING, Value: strconv.Quote(schedPath)}}
	for _, d := range f.Decls {
		if gd, ok := d.(*ast.GenDecl); ok && gd.Tok == token.IMPORT {
			gd.Specs = append(gd.Specs, spec)
			if !gd.Lparen.IsValid() {
				gd.Lparen = gd.Pos()
				gd.Rparen = gd.End()
			}
			f.Imports = append(f.Imports, spec)
			return
		}
	}
	gd := &ast.GenDecl{Tok: token.IMPORT, Specs: []ast.Spec{spec}}
	f.Decls = append([]ast.Decl{gd}, f.Decls...)
}

func (rw *rewriter) site(n ast.Node) *ast.BasicLit {
	p := rw.fset.Position(n.Pos())
	return &ast.BasicLit{Kind: token.STRING, Value: strconv.Quote(fmt.Sprintf("%s:%d", rw.rel, p.Line))}
}

func vsCall(name string, args ...ast.Expr) *ast.CallExpr {
	return &ast.CallExpr{Fun: &ast.SelectorExpr{X: ast.NewIdent("vs"), Sel: ast.NewIdent(name)}, Args: args}
}

var lockNames = map[string]string{"Lock": "Lock", "Unlock": "Unlock", "RLock": "RLock", "RUnlock": "RUnlock"}

// lockCall recognises X.Lock() etc. and returns the replacement call.
func (rw *rewriter) lockCall(e ast.Expr) *ast.CallExpr {
	c, ok := e.(*ast.CallExpr)
	if !ok || len(c.Args) != 0 {
		return nil
	}
	sel, ok := c.Fun.(*ast.SelectorExpr)
	if !ok {
		return nil
	}
	name, ok := lockNames[sel.Sel.Name]
	if !ok {
		return nil
	}
	rw.n++
	rw.stats[name]++
	return vsCall(name, addrOf(sel.X), rw.site(c))
}

func addrOf(x ast.Expr) ast.Expr {
	switch v := x.(type) {
	case *ast.Ident, *ast.SelectorExpr, *ast.StarExpr:
		return &ast.UnaryExpr{Op: token.AND, X: x}
	case *ast.ParenExpr:
		return addrOf(v.X)
	}
	return x
}

func (rw *rewriter) block(b *ast.BlockStmt) {
	if b == nil {
		return
	}
	b.List = rw.list(b.List)
}

func (rw *rewriter) list(in []ast.Stmt) []ast.Stmt {
	var out []ast.Stmt
	for _, s := range in {
		out = append(out, rw.stmt(s)...)
	}
	return out
}

// funcLits instruments function literals appearing inside an expression (callbacks etc.).
func (rw *rewriter) funcLits(n ast.Node) {
	if n == nil {
		return
	}
	ast.Inspect(n, func(x ast.Node) bool {
		if fl, ok := x.(*ast.FuncLit); ok {
			rw.block(fl.Body)
			return false
		}
		return true
	})
}

func isRecv(e ast.Expr) (*ast.UnaryExpr, bool) {
	for {
		if p, ok := e.(*ast.ParenExpr); ok {
			e = p.X
			continue
		}
		break
	}
	u, ok := e.(*ast.UnaryExpr)
	return u, ok && u.Op == token.ARROW
}

func (rw *rewriter) stmt(s ast.Stmt) []ast.Stmt {
	switch v := s.(type) {
	case *ast.ExprStmt:
		if c := rw.lockCall(v.X); c != nil {
			return []ast.Stmt{&ast.ExprStmt{X: c}}
		}
		if _, ok := isRecv(v.X); ok {
			rw.n++
			rw.stats["recv"]++
			return []ast.Stmt{&ast.ExprStmt{X: vsCall("Blocking", rw.site(v))}, v, &ast.ExprStmt{X: vsCall("After", rw.site(v))}}
		}
		if c, ok := v.X.(*ast.CallExpr); ok {
			if sel, ok := c.Fun.(*ast.SelectorExpr); ok && sel.Sel.Name == "Wait" && len(c.Args) == 0 {
				rw.n++
				rw.stats["wait"]++
				return []ast.Stmt{&ast.ExprStmt{X: vsCall("Blocking", rw.site(v))}, v, &ast.ExprStmt{X: vsCall("After", rw.site(v))}}
			}
			if id, ok := c.Fun.(*ast.Ident); ok && id.Name == "close" && len(c.Args) == 1 {
				rw.n++
				rw.stats["close"]++
				return []ast.Stmt{&ast.ExprStmt{X: vsCall("Point", rw.site(v))}, v}
			}
		}
		rw.funcLits(v.X)
		return []ast.Stmt{v}
	case *ast.SendStmt:
		rw.n++
		rw.stats["send"]++
		return []ast.Stmt{&ast.ExprStmt{X: vsCall("Blocking", rw.site(v))}, v, &ast.ExprStmt{X: vsCall("After", rw.site(v))}}
	case *ast.AssignStmt:
		if len(v.Rhs) == 1 {
			if _, ok := isRecv(v.Rhs[0]); ok {
				rw.n++
				rw.stats["recv"]++
				return []ast.Stmt{&ast.ExprStmt{X: vsCall("Blocking", rw.site(v))}, v, &ast.ExprStmt{X: vsCall("After", rw.site(v))}}
			}
		}
		for _, e := range v.Rhs {
			rw.funcLits(e)
		}
		return []ast.Stmt{v}
	case *ast.DeferStmt:
		if c := rw.lockCall(v.Call); c != nil {
			v.Call = c
			return []ast.Stmt{v}
		}
		rw.funcLits(v.Call)
		return []ast.Stmt{v}
	case *ast.GoStmt:
		if fl, ok := v.Call.Fun.(*ast.FuncLit); ok {
			rw.block(fl.Body)
			rw.n++
			rw.stats["go"]++
			pre := []ast.Stmt{
				&ast.ExprStmt{X: vsCall("Start", rw.site(v))},
				&ast.DeferStmt{Call: vsCall("End")},
			}
			fl.Body.List = append(pre, fl.Body.List...)
			for _, a := range v.Call.Args {
				rw.funcLits(a)
			}
			return []ast.Stmt{&ast.ExprStmt{X: vsCall("Point", rw.site(v))}, v}
		}
		rw.funcLits(v.Call)
		return []ast.Stmt{&ast.ExprStmt{X: vsCall("Point", rw.site(v))}, v}
	case *ast.BlockStmt:
		rw.block(v)
		return []ast.Stmt{v}
	case *ast.IfStmt:
		rw.ifStmt(v)
		return []ast.Stmt{v}
	case *ast.ForStmt:
		rw.funcLits(v.Cond)
		rw.block(v.Body)
		return []ast.Stmt{v}
	case *ast.RangeStmt:
		rw.block(v.Body)
		return []ast.Stmt{v}
	case *ast.SwitchStmt:
		rw.caseBodies(v.Body)
		return []ast.Stmt{v}
	case *ast.TypeSwitchStmt:
		rw.caseBodies(v.Body)
		return []ast.Stmt{v}
	case *ast.LabeledStmt:
		if sel, ok := v.Stmt.(*ast.SelectStmt); ok {
			return []ast.Stmt{rw.selectStmt(sel, v.Label)}
		}
		inner := rw.stmt(v.Stmt)
		v.Stmt = inner[0]
		return append([]ast.Stmt{v}, inner[1:]...)
	case *ast.SelectStmt:
		return []ast.Stmt{rw.selectStmt(v, nil)}
	case *ast.ReturnStmt:
		for _, e := range v.Results {
			rw.funcLits(e)
		}
		return []ast.Stmt{v}
	case *ast.DeclStmt:
		rw.funcLits(v.Decl)
		return []ast.Stmt{v}
	}
	return []ast.Stmt{s}
}

func (rw *rewriter) ifStmt(v *ast.IfStmt) {
	if v.Init != nil {
		rw.funcLits(v.Init)
	}
	rw.funcLits(v.Cond)
	rw.block(v.Body)
	switch e := v.Else.(type) {
	case *ast.BlockStmt:
		rw.block(e)
	case *ast.IfStmt:
		rw.ifStmt(e)
	}
}

func (rw *rewriter) caseBodies(b *ast.BlockStmt) {
	for _, c := range b.List {
		if cc, ok := c.(*ast.CaseClause); ok {
			cc.Body = rw.list(cc.Body)
		}
	}
}

func (rw *rewriter) temp(prefix string) *ast.Ident {
	rw.tmp++
	return ast.NewIdent(fmt.Sprintf("_vs%s%d", prefix, rw.tmp))
}

func (rw *rewriter) selectStmt(sel *ast.SelectStmt, label *ast.Ident) ast.Stmt {
	rw.n++
	rw.stats["select"]++
	var pre []ast.Stmt
	var cases []ast.Expr
	var clauses []ast.Stmt
	hasDefault := false
	idx, val, okv := rw.temp("i"), rw.temp("v"), rw.temp("ok")
	ci := 0
	for _, c := range sel.Body.List {
		cc := c.(*ast.CommClause)
		body := rw.list(cc.Body)
		if cc.Comm == nil {
			hasDefault = true
			clauses = append(clauses, &ast.CaseClause{List: nil, Body: body})
			continue
		}
		chTmp := rw.temp("c")
		var head []ast.Stmt
		switch comm := cc.Comm.(type) {
		case *ast.SendStmt:
			vTmp := rw.temp("s")
			pre = append(pre, &ast.AssignStmt{Lhs: []ast.Expr{chTmp}, Tok: token.DEFINE, Rhs: []ast.Expr{comm.Chan}})
			pre = append(pre, &ast.AssignStmt{Lhs: []ast.Expr{vTmp}, Tok: token.DEFINE, Rhs: []ast.Expr{&ast.CallExpr{Fun: ast.NewIdent("any"), Args: []ast.Expr{comm.Value}}}})
			cases = append(cases, vsCall("Send", chTmp, vTmp))
		case *ast.ExprStmt:
			u, _ := isRecv(comm.X)
			pre = append(pre, &ast.AssignStmt{Lhs: []ast.Expr{chTmp}, Tok: token.DEFINE, Rhs: []ast.Expr{u.X}})
			cases = append(cases, vsCall("Recv", chTmp))
		case *ast.AssignStmt:
			u, _ := isRecv(comm.Rhs[0])
			pre = append(pre, &ast.AssignStmt{Lhs: []ast.Expr{chTmp}, Tok: token.DEFINE, Rhs: []ast.Expr{u.X}})
			cases = append(cases, vsCall("Recv", chTmp))
			rhs := []ast.Expr{vsCall("RecvVal", chTmp, val)}
			if len(comm.Lhs) == 2 {
				rhs = append(rhs, okv)
			}
			head = append(head, &ast.AssignStmt{Lhs: comm.Lhs, Tok: comm.Tok, Rhs: rhs})
		}
		clauses = append(clauses, &ast.CaseClause{
			List: []ast.Expr{&ast.BasicLit{Kind: token.INT, Value: strconv.Itoa(ci)}},
			Body: append(head, body...),
		})
		ci++
	}
	hd := "false"
	if hasDefault {
		hd = "true"
	}
	args := append([]ast.Expr{rw.site(sel), ast.NewIdent(hd)}, cases...)
	pre = append(pre, &ast.AssignStmt{Lhs: []ast.Expr{idx, val, okv}, Tok: token.DEFINE, Rhs: []ast.Expr{vsCall("Select", args...)}})
	pre = append(pre, &ast.AssignStmt{Lhs: []ast.Expr{ast.NewIdent("_"), ast.NewIdent("_")}, Tok: token.ASSIGN, Rhs: []ast.Expr{val, okv}})
	var sw ast.Stmt = &ast.SwitchStmt{Tag: idx, Body: &ast.BlockStmt{List: clauses}}
	if label != nil {
		sw = &ast.LabeledStmt{Label: label, Stmt: sw}
	}
	return &ast.BlockStmt{List: append(pre, sw)}
}
