#!/usr/bin/env python3
"""fills the generated parts of DESIGN.md section 9: the seeded-changes table (from seeded/*/meta.json), the
determinism table (from a tools/allselftest log) and the thorough table (from a tools/allthorough log).
usage: tools/fillresults.py [--selftest LOG] [--thorough LOG]"""
import json, os, re, subprocess, sys
V = os.path.join(os.path.dirname(os.path.abspath(__file__)), "..")
p = os.path.join(V, "DESIGN.md")
s = open(p).read()

def put(s, tag, text):
    a, b = tag + "-BEGIN\n", tag + "-END\n"
    i, j = s.index(a) + len(a), s.index(b)
    return s[:i] + text.rstrip("\n") + "\n" + s[j:]

s = put(s, "SEEDED-TABLE", subprocess.run([sys.executable, os.path.join(V, "tools", "seededtable.py")], capture_output=True, text=True).stdout)
args = sys.argv[1:]
if "--selftest" in args:
    log = open(args[args.index("--selftest") + 1], errors="replace").read()
    rows = ["| Check (test function) | Seeds × GOMAXPROCS × repetitions | Seeds whose runs diverged |", "|---|---|---|"]
    for m in re.finditer(r"selftest (C\d\d) \((\w+)\): (\d+) seeds x GOMAXPROCS (\[[^\]]*\]) x (\d+) runs, (\d+) diverged", log):
        rows.append("| %s (%s) | %s × %s × %s | %s |" % (m.group(1), m.group(2), m.group(3), m.group(4), m.group(5), m.group(6)))
    s = put(s, "DETERMINISM-TABLE", "\n".join(rows))
if "--thorough" in args:
    log = open(args[args.index("--thorough") + 1], errors="replace").read()
    rows = ["| Check | Exit | Wall time | Runs | Distinct non-trivial |", "|---|---|---|---|---|"]
    for m in re.finditer(r"== (C\d\d) rc=(\d+) wall=(\d+)s\n(?:(OK property=\S+ tier=thorough runs=(\d+) distinct_nontrivial=(\d+)[^\n]*)\n)?", log):
        rows.append("| %s | %s | %s s | %s | %s |" % (m.group(1), m.group(2), m.group(3), m.group(5) or "-", m.group(6) or "-"))
    s = put(s, "THOROUGH-TABLE", "\n".join(rows))
open(p, "w").write(s)
