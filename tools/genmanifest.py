#!/usr/bin/env python3
"""Regenerates MANIFEST.json from lib/checks_config.py (claimed checks) and lib/manifest_meta.py."""
import json, os, sys
V = os.path.dirname(os.path.dirname(os.path.abspath(__file__)))
sys.path.insert(0, os.path.join(V, "lib"))
from checks_config import CHECKS
from manifest_meta import META, NOT_APPLICABLE, NOTES
ids = [json.loads(l)["id"] for l in open(os.path.join(V, "properties.jsonl"))]
checks = []
for i in ids:
    if i not in CHECKS or i not in META:
        continue
    m = META[i]
    checks.append({
        "property_id": i,
        "quick_cmd": "./check %s quick" % i,
        "thorough_cmd": "./check %s thorough" % i,
        "evidence_file": "/verif/evidence/%s.json" % i,
        "replay_cmd_template": "./check %s --replay {path}" % i,
        "engine": "dst",
        "level_claimed": {"category": CHECKS[i]["level"], "text": m["text"], "design_ref": m["design_ref"]},
        "level_note": m["note"],
        "technique": m["technique"],
    })
na = [{"property_id": i, "reason": NOT_APPLICABLE.get(i, "check not built yet in this session; no claim is made")} for i in ids if i not in [c["property_id"] for c in checks]]
man = {
    "version": 1,
    "setup_cmd": "./setup.sh",
    "hooks": {
        "guard": "verif (Go build tag) on every file the checks inject through `go test -overlay`; no hook is committed to /repo",
        "enable": "./check builds with `go1.26.8 test -c -tags verif -overlay=<harness+simulator+instrumented copies> -modfile=<scratch copy of go.mod>`",
        "baseline_off_cmd": "cd /repo && go test -vet=off -count=1 -timeout 25m ./...",
        "source_commits": [],
        "add_only": True,
    },
    "engines": [{"name": "dst", "path": "/verif/check", "serves_properties": [c["property_id"] for c in checks],
                 "kind_free_text": "deterministic simulation with fault injection: seeded (rapid) choice source, simulated stream/disk/network/clock (testing/synctest), cooperative goroutine scheduler over build-overlay instrumentation, reference-model oracles, shrinking + double replay"}],
    "checks": checks,
    "notes": NOTES,
    "not_applicable": na,
}
json.dump(man, open(os.path.join(V, "MANIFEST.json"), "w"), indent=1)
print("claimed:", [c["property_id"] for c in checks], "unclaimed:", [n["property_id"] for n in na])
