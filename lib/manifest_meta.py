NOTES = ("All checks are seeded simulations of the real weshnet code built from /repo's working tree through a build "
         "overlay (harness, simulator packages and, for the schedule-quantified properties, copies of the current sources "
         "with scheduling points). VERIF_SEED selects the seed. Exit 2 means infrastructure trouble, never a violation.")

NOT_APPLICABLE = {}

META = {
    "C18": {
        "text": "Seeded exploration of (message sequence, frame sizes around the limit, chunking of the byte stream, "
                "EOF/read-error/write-error offset, malformed and oversize lengths, garbage input) on the real varint and "
                "uint32 readers/writers over a simulated stream, against the identity model; ~10^6 cases per quick run. "
                "Exploration is the right level: the space is unbounded and the oracle is exact per case.",
        "design_ref": "section 5, C18",
        "note": "trusted: google.golang.org/protobuf marshal/unmarshal; the in-package inspection of the reader buffer capacity "
                "stands for 'does not allocate beyond the limit' (plus ulimit -v on the worker processes)",
        "technique": "deterministic simulation: seeded stream chunking and fault placement vs identity model (rapid, shrinking, replay)",
    },
    "C02": {
        "text": "Seeded exploration of arrival histories (reordering, duplication, retries, re-delivery of the same/older/newer "
                "chain-key announcement at any position, receiver restarts, 1-2 senders, windows 1..4 densely and 100 sparsely) "
                "on the real secret store over SimDisk, every attempt compared with the window reference model "
                "(c < k <= c+W+opened; opened stays openable; nothing sealed before c opens). Exploration with a reference "
                "model is the right level: the history space is unbounded, the oracle is exact per attempt.",
        "design_ref": "section 5, C02; appendix B.1",
        "note": "opening MORE than the statement requires (beyond the window) is recorded, not reported: the statement gives a lower "
                "bound on openability; only never-openable messages (no chain key, sealed at or before c) are violations on that side",
        "technique": "deterministic simulation: seeded arrival/duplication/restart schedules vs ratchet-window reference model",
    },
    "C10": {
        "text": "Crash-point enumeration: for each seeded workload every datastore mutation (put, delete, atomic batch commit) of the "
                "sender's and the receiver's SimDisk is a crash point; the device restarts on exactly the surviving prefix and the "
                "four recovery clauses are evaluated, plus (sampled) continuation of the remaining workload under the C02 contract. "
                "Exhaustive per workload over crash points, sampled over workloads.",
        "design_ref": "section 5, C10; section 3.3",
        "note": "crash granularity = datastore mutation (the unit at which durable state changes); the secret store is rebuilt from the "
                "snapshot, in-memory state is lost; a restart before the identity keys became durable legitimately creates a new identity",
        "technique": "deterministic simulation: exhaustive crash-point injection on a simulated disk per seeded workload, recovery oracles",
    },
    "C15": {
        "text": "Seeded search over goroutine schedules of the real queue code: the working-tree sources of internal/queue are "
                "instrumented at check time with scheduling points at every lock, unlock and select (select's choice among ready "
                "cases is taken from the seed, a non-blocking send only meets a receiver really blocked in the runtime), real "
                "goroutines are released one at a time inside a synctest bubble. Oracles: no lost wake-up / no deadlock at final "
                "quiescence decided from scheduler state, cancelled wait returns, all items delivered, history linearizable against "
                "a FIFO model and a priority-multiset model (porcupine). ~5*10^5 schedules per quick run.",
        "design_ref": "section 4; section 5, C15",
        "note": "schedules are explored at instrumented synchronisation points only (code between two points is atomic); sampling, "
                "the small schedule space is reported by distinct fingerprints, not claimed exhaustive",
        "technique": "deterministic simulation: seeded cooperative scheduling of real goroutines at injected sync points + porcupine linearizability",
    },
    "C16": {
        "text": "Seeded search over goroutine schedules of the real connectedness tracker, lifecycle manager and discovery peer cache, "
                "all sharing internal/notify: working-tree sources instrumented at check time with scheduling points at every lock, "
                "unlock, select and channel operation; shadow lock state makes a realised deadlock a scheduler state (no task "
                "enabled, some parked on locks) rather than a hang. Oracles at final quiescence: no deadlock; a waiter still "
                "blocked after the updater finished has seen the current state (no missed update); cancelled waits returned; "
                "returned peer sets linearizable against the connectedness-map model (porcupine).",
        "design_ref": "section 4; section 5, C16",
        "note": "the static lock-order clause of the quantifier is covered dynamically (realised deadlocks only); the GroupDeviceStatus "
                "stream and service wiring (api_group.go, service.go) are not driven: the tracker API they call is",
        "technique": "deterministic simulation: seeded cooperative scheduling of real goroutines at injected sync points, deadlock/missed-update oracles + porcupine",
    },
    "C09": {
        "text": "Seeded search over goroutine schedules of concurrent SealEnvelope callers on the real secret store: pkg/secretstore is "
                "instrumented at every lock/unlock and every SimDisk read/write is a scheduling point; 2-4 sender tasks x 1-4 messages "
                "on 1-2 groups of all three types with a concurrent announcement reader. Oracles: returned counters form the gap-free "
                "sequence after the warm-up counter, every envelope opens to its payload at a registered receiver (so no key/nonce "
                "pair is reused), chain-key writes observed at the disk seam never decrease.",
        "design_ref": "section 5, C09",
        "note": "replaces the 'real parallelism on 16 cores' of the quantifier by controlled interleavings at synchronisation points and "
                "datastore operations; code between two points is atomic",
        "technique": "deterministic simulation: seeded cooperative scheduling at injected lock points and simulated-disk operations",
    },
    "C04": {
        "text": "Macro simulation: 2-3 real replicas (real WeshOrbitDB, go-orbit-db base store and replicator, go-ipfs-log, real "
                "metadata store and index, real secret store on SimDisk) of one account group inside a synctest bubble over SimNet/"
                "SimDag. The simulator owns every head announcement, head exchange, join notification and remote block fetch and "
                "chooses deliveries (reordering, batching through late announcements, drops repaired by head exchange, duplicates), "
                "partitions/heals, clean restarts and extra re-index calls between seeded metadata operations, including concurrent "
                "writes by partitioned devices. Oracles at quiescence: equal entry sets => equal digests of every public getter; "
                "digest unchanged by reopen and by re-index; for causally ordered histories digest == fold model over the decoded "
                "entries; entry sets converge at the anti-entropy fixpoint and nothing appended is lost. A second scenario runs multi-member and contact groups (members, devices, admins; reference = set insertion over the decoded entries). Part 2 interleaves 2-3 concurrent writers of one device at the lock operations of the metadata index (instrumented) and requires the state at quiescence to equal the state after one more indexing.",
        "design_ref": "section 5, C04; sections 3.1-3.6",
        "note": "members/devices/admins of the account group are compared between replicas but not modelled (no activation in this "
                "scenario); multi-member and contact group histories are exercised by C05/C12; reactions of orbit-db goroutines "
                "between two simulator events are atomic steps",
        "technique": "deterministic simulation: real replicas over simulated network/DAG/disk/clock, seeded delivery and fault schedules, convergence + fold-model oracles",
    },
    "C07": {
        "text": "Seeded operation sequences on the real account metadata store (real orbit-db/ipfs-log underneath) against the "
                "appendix-A reference table: for every operation the reference predicts refusal (error and nothing appended) or the "
                "event type that must be appended; after every operation, after reopening the group, and on a second device that "
                "replays the log through SimNet (online with reordered deliveries, or afterwards in one batch), state / rendezvous "
                "seed / metadata / own metadata of every contact, the one-state partition and the contact-group lookup are compared "
                "with the reference fold.",
        "design_ref": "section 5, C07; appendix A",
        "note": "sequences of length <= 6 are sampled densely (not enumerated exhaustively), longer ones randomly; nil keys excluded",
        "technique": "deterministic simulation: seeded operation sequences + reopen + simulated replication vs reference lifecycle model",
    },
    "C13": {
        "text": "Macro simulation on two real replicas: a writer appends up to 12 metadata/message entries, the simulator delivers them "
                "to a second replica entry by entry, in one batch or mixed; then every (since, until, reverse) combination over "
                "all entries, the open end and an unknown identifier is listed through the real ListEvents of both stores on both "
                "replicas and compared with the inclusive slice of the causal order (reversed on request) or the invalid-range error. The same ranges are listed again through the service's GroupMetadataList / GroupMessageList streams (until_now for the open end); in one case of three a second replica writes concurrently and the reference order is the full listing itself (a linear extension of the causal order, equal on both replicas).",
        "design_ref": "section 5, C13",
        "note": "single-writer (causally totally ordered) logs, as the statement requires; the RPC wrappers GroupMetadataList/"
                "GroupMessageList with until_now are not driven (they forward the three parameters unchanged)",
        "technique": "deterministic simulation: seeded delivery plans to a real replica + exhaustive range enumeration vs causal-order model",
    },
    "C03": {
        "text": "Fault enumeration with a Byzantine group member inside the simulated network: all 21 event types x the forgery catalogue "
                "are sealed with the real group secret and offered to openGroupEnvelope (all must be refused, the correctly signed "
                "twin of every type must be accepted), and seeded batches of forged entries plus valid control events are appended "
                "to the Byzantine member's real metadata log and replicated through SimNet to an honest replica: its state digest "
                "must not move while only forged entries arrive, no EventMetadataReceived may be emitted for a forged entry, every "
                "valid entry must be emitted, honest replicas with equal entries agree.",
        "design_ref": "section 5, C03",
        "note": "the catalogue is enumerated completely per run at the envelope level (bit-flip positions are seeded); at the replication "
                "level 1-4 batches of 1-5 forged entries per run are sampled. Ed25519 unforgeability is trusted (symbolic adversary)",
        "technique": "deterministic simulation with a Byzantine member: forgery-catalogue enumeration + simulated replication to an honest real replica",
    },
    "C01": {
        "text": "Fault enumeration on envelopes in flight in a three-party session on the real secret store: every single-bit flip, "
                "pairwise field substitution, cross-group replay, re-attribution by a Byzantine fellow member and payloads forged "
                "under the sender's genuine message key (which a member can derive) with B's / another / the original / random / "
                "empty signature. Oracle: the set of (group, device, counter, payload) tuples recorded when SealEnvelope returned; "
                "every successful open must be exactly such a tuple, alterations inside authenticated regions must fail, every "
                "authentic envelope must open. Part 2 observes the receiver's GroupMessageEvent emissions: sender, receiver and a Byzantine member replicate the message log over the simulated network, the Byzantine member appends altered copies and forgeries as log entries of its own (also under the receiver's own message key), the simulator chooses what arrives first; nothing crafted may be delivered and every genuine message exactly once.",
        "design_ref": "section 5, C01; appendix B.5",
        "note": "the bit-flip sweep is a pure-input clause run as a seeded enumeration; the simulation part is the three-party knowledge "
                "model and attempts on clones of the receiver's durable state; GroupMessageEvent emission is covered by C08",
        "technique": "deterministic simulation with a Byzantine member: fault-catalogue enumeration on envelopes in flight vs authentic-tuple oracle",
    },
    "C14": {
        "text": "Seeded sessions on the real secret store of a receiver without network: log deliveries and push deliveries of the "
                "same messages in every order (push first, log first, repeated), several senders and groups, counters inside, at "
                "and beyond the message-key window and the reference window (both from {1,2,3,100}), receiver restarts, bit-flipped "
                "payloads and unknown group references. Soundness on every attempt (original payload, sender, counter, group; "
                "AlreadyReceived iff the log path had opened the entry), completeness for messages the ratchet model makes "
                "openable and whose counter is strictly inside the reference window, and non-interference of the two paths. Part 2 observes the service replies: senders and a receiver on the simulated network, push payloads produced by OutOfStoreSeal from the sender's log and opened by the receiver's OutOfStoreReceive before, after or without the log delivery; the AlreadyReceived flag must equal 'the log path delivered that entry' and every message is delivered exactly once through the log path.",
        "design_ref": "section 5, C14; appendix B.1",
        "note": "window-edge counters are don't-care for completeness (the statement does not fix the edge convention); the service-level "
                "OutOfStoreSeal/OutOfStoreReceive wrappers are not driven",
        "technique": "deterministic simulation: seeded push/log delivery schedules with restarts and corruption vs ratchet + reference-window model",
    },
    "C05": {
        "text": "Part (a), secrecy/exactness: multi-party sessions on real secret stores over all three group types; the announcement, taken "
                "at a drawn point of the sender's history, is offered to the right recipient (must register; exactly the later "
                "messages become openable per the window model) and to every wrong combination (another party in the group, the right "
                "recipient in another group incl. one with identical sender-device/recipient-member keys, another claimed sender), "
                "with every single-bit flip and truncation of the ciphertext. Part (b), completeness: see the root-package part of this check.",
        "design_ref": "section 5, C05",
        "note": "X25519/box secrecy is trusted; wrong-party attempts run on clones of the party's durable state",
        "technique": "deterministic simulation: multi-party wrong-recipient/wrong-group/wrong-sender matrix + ciphertext fault enumeration; simulated group sessions for completeness",
    },
    "C11": {
        "text": "Seeded multi-store histories on real secret stores over SimDisk: accounts grow to several devices by export/import, "
                "derived keys are first used in both orders, stores restart, the recomputable key-cache class is dropped, imports "
                "are attempted on used stores and with malformed keys. After every step the cross-store invariants of the "
                "statement are evaluated over all stores (contact-group symmetry and separation, member key shared by the devices "
                "of an account and distinct across accounts, distinct device keys, account identity preserved by import, refused "
                "imports leave the store byte-identical). Part 2 runs 2-3 concurrent FIRST uses of a brand-new store under the cooperative scheduler (pkg/secretstore instrumented, SimDisk accesses as points): all must be handed the identities the store answers afterwards and after a restart.",
        "design_ref": "section 5, C11",
        "note": "the algebra of the derivations is a pure-input clause; the simulated part is order of first use, caching, restart, "
                "cache loss and refused imports. A torn import (crash between its two writes) is not asserted: the statement does not cover it",
        "technique": "deterministic simulation: seeded multi-store operation sequences with restart/cache-loss faults, cross-store invariants after every step",
    },
    "C17": {
        "text": "Seeded histories on the simulated clock with two real RotationInterval instances and two real head-exchange marshalers: "
                "registrations in the same or different periods, clock advances placed within a period, exactly on, one second "
                "before/after and several periods past a boundary and past the grace period, resolutions, exchanges of rotation "
                "values and Marshal/Unmarshal between the peers. Oracles are relational: a registered topic always resolves to the "
                "point of the period containing now with a deadline in the future; peers that resolved in the current period accept "
                "each other's value and map it to the same topic; the previous own value is accepted during the grace period; "
                "unknown topics and values of another seed are refused; the digest is deterministic and changes with topic, seed, period.",
        "design_ref": "section 5, C17; appendix B.4",
        "note": "hour- and day-long rotation intervals cost microseconds on the fake clock; no clock skew between the peers (one bubble, one clock); "
                "the tinder swiper is not driven",
        "technique": "deterministic simulation: seeded clock-advance/register/resolve/exchange histories on a simulated clock vs period model",
    },
    "C06": {
        "text": "Fault/attack enumeration on the real handshake state machines: honest requester and responder instances run as goroutines "
                "in a synctest bubble, every frame passes through the simulated adversarial transport. Catalogue: faithful relay, one "
                "fault on any frame in either direction (bit flip, truncation, oversize, drop, duplicate, negative acknowledge, "
                "degenerate hello, reflection), adversary as a legitimate endpoint, the two-phase low-order relay with all 7 small-order "
                "points and 5 non-canonical encodings, wrong target, foreign key types, cross-session replay of any recorded frame. "
                "Oracle = matching conversations: a responder reporting key K had, in this very session, a peer holding K's private "
                "half (an honest requester instance with a matching transcript, or the adversary with its own key); a succeeding "
                "requester had a matching responder instance of its target; faithful relay completes on both sides. Part 2 observes the second observation point: the real contactRequestsManager.handleIncomingRequest of a responder node with its account group open, against the real requester side over a simulated stream routed through the adversary (faults on handshake frames, contact message altered in flight, adversary as requester, replayed frames); an incoming-request event may be appended only for the key whose holder took part in that very session.",
        "design_ref": "section 5, C06; appendix B.5",
        "note": "frame-level transport (byte-level framing is C18); handleIncomingRequest and the contact message that follows the handshake "
                "are not driven; small-order Ed25519 identity keys are outside the catalogue",
        "technique": "deterministic simulation: real protocol endpoints against a scripted adversarial transport, attack-catalogue enumeration, matching-conversation oracle",
    },
    "C12": {
        "text": "(a) The invitation as bytes in flight: every single-bit flip of the serialized group, field removal, type substitution and "
                "foreign secret/signature is offered to the real GroupJoin on a real account metadata store; alterations of "
                "identifier, secret, signature or type must be refused with nothing appended, the genuine invitation joins and the "
                "account then acts under derived member/device keys. (b) A replication node (real WeshOrbitDB in replication mode "
                "holding only FilterGroupForReplication's descriptor) joins the simulated network of a random group session: it must "
                "use the same log addresses, hold every entry at the anti-entropy fixpoint, and open no metadata envelope, message "
                "header or message payload of the session. Part 2 drives the service's MultiMemberGroupJoin / ActivateGroup / GroupInfo with seeded sessions of altered and genuine invitations: whatever was refused before, a group joined by its genuine invitation is the invited group and the account acts in it under the derived keys. Groups of all types are used in (b).",
        "design_ref": "section 5, C12",
        "note": "(a) is a pure-input clause run as a seeded enumeration; flips landing in fields outside the statement (link key "
                "signature) are don't-care; the replication *service* (gRPC server, token auth) is not part of the simulation",
        "technique": "deterministic simulation: invitation fault enumeration on a real store + replication node as a participant of the simulated network",
    },
    "C08": {
        "text": "Two parts. (M) Macro simulation of 2-3 real devices (real GroupContext activation and metadata watcher, real message "
                "store pipeline with its queues and per-device caches, real secret store and orbit-db) over SimNet: devices activate "
                "and send at seeded points, entries and chain-key announcements arrive in any order and batch, late connection, then "
                "anti-entropy to a fixpoint. (C) The same system with store_message.go, group_context.go and internal/queue "
                "instrumented: the seeded cooperative scheduler interleaves the pipeline goroutines at every lock/unlock/select "
                "between external events. Oracle at quiescence decided from scheduler/simulator state (nothing enabled, nothing in "
                "flight), never from a timeout: a message sealed after the sender's announcement to the receiver's member is delivered "
                "exactly once with the original payload, the main queue is empty, chain keys of all announced devices are known "
                "everywhere (C05 b). (Q) The two queues the pipeline is built on (simple queue with a waiting consumer, priority queue under concurrent Add/Next/NextAll) under the same scheduler, with the lost-wake-up and linearizability oracles.",
        "design_ref": "section 5, C08 and C05(b); section 4",
        "note": "required deliveries are those for which the sender had already appended its announcement to the receiver's member "
                "when it sealed (ground truth read from the sender's index at send time); no drops/restarts in this scenario so one "
                "arrival per entry; part C is bounded to 2 devices and 1-3 messages",
        "technique": "deterministic simulation: real devices over simulated network + seeded cooperative scheduling of the message pipeline at injected sync points",
    },
    "C20": {
        "text": "Seeded account histories (contacts, contact-request switch/seed, a joined multi-member group with metadata and messages) on "
                "a real node; the real service.export writes the archive (checked: both keys once, every log entry once under its CID); "
                "one archive fault per run (bit flip in an entry / heads / key member, dropped entry, dropped or duplicated key, "
                "duplicated entry, reordered members, truncation, restore onto a used store) and the real RestoreAccountExport on a "
                "fresh node with fresh SimDisk/SimDag and no network, on the simulated clock. Clean, reordered or entry-duplicated "
                "archives must restore to the same account keys and, per exported group, the same entries, heads and C04 state "
                "digest; the faults the statement lists must be rejected; for every other fault: no panic, and a restore that waits "
                "for a missing head is recognised as permanent quiescence, not a failure.",
        "design_ref": "section 5, C20",
        "note": "single exporting device; byte flips in key members and truncations are only required not to panic (not listed by the statement)",
        "technique": "deterministic simulation: seeded history + archive fault injection + restore on a fresh simulated node, identity/log/digest equality",
    },
    "C19": {
        "text": "Seeded request sessions against a real in-process service: every method of the protocol service interface is found by "
                "reflection and called with requests whose every field is drawn from an edge-value pool (nil/empty/short/oversized "
                "bytes, valid keys of every kind known to the session, marshalled messages, protobuf garbage, nil sub-messages), "
                "interleaved with deactivation and reactivation of the account group and other groups and with calls of the exported "
                "decode/decrypt helpers on the same pool. Oracle: no call panics (recovered at the call boundary and reported with "
                "the request history) and the process still answers afterwards.",
        "design_ref": "section 5, C19; section 8",
        "note": "NOT scheduler-controlled: the service runs on libp2p's in-memory mocknet with real goroutines and the real clock (it cannot "
                "be built without a libp2p host); histories are seeded and replayable because a panic on malformed input is a "
                "deterministic function of the request history. The two credential-flow RPCs that need an external HTTP issuer are "
                "not called. Requests themselves are never nil.",
        "technique": "seeded request-history exploration of a real in-process service (edge-value generator over all RPCs by reflection); simulation only of the request source and service state changes",
    },
}
