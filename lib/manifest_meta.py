NOTES = ("All checks are seeded simulations of the real weshnet code built from /repo's working tree through a build "
         "overlay (harness, simulator packages and, for the schedule-quantified properties, copies of the current sources "
         "with scheduling points). VERIF_SEED selects the seed. Exit 2 means infrastructure trouble, never a violation.")

NOT_APPLICABLE = {}

META = {
    "C18": {
        "text": "Seeded exploration of (message sequence, frame sizes around the limit, chunking of the byte stream, "
                "EOF/read-error/write-error offset, malformed and oversize lengths, garbage input) on the real varint and "
                "uint32 readers/writers over a simulated stream, against the identity model; ~10^6 cases per quick run. "
                "Exploration is the right level: the space is unbounded and the oracle is exact per case.",
        "design_ref": "section 5, C18",
        "note": "trusted: google.golang.org/protobuf marshal/unmarshal; the in-package inspection of the reader buffer capacity "
                "stands for 'does not allocate beyond the limit' (plus ulimit -v on the worker processes)",
        "technique": "deterministic simulation: seeded stream chunking and fault placement vs identity model (rapid, shrinking, replay)",
    },
}
