# Per-check configuration of the ./check driver.
#   pkg        repo package directory the harness files are overlaid into (harness/<pkg>/*.go)
#   test       Go test function that runs the rapid property
#   instrument repo packages/files whose copies get scheduling points (Tier C)
#   quick/thorough: wall budget in seconds, rapid checks per worker process
#   rule       how cases are generated and what makes one distinct and non-trivial (evidence)

COMMON_ASSUMPTIONS = [
    "sampling, not proof: a clean batch is evidence over the explored seeds only",
    "Ed25519/X25519/secretbox/AES-GCM primitives are trusted (symbolic adversary)",
    "libp2p, gossipsub, kubo/bitswap and the rendezvous server are not part of the simulation",
]

# non-test files added to the repo module through the overlay for every check (observation accessors, //go:build verif)
GLOBAL_OVERLAY = {
    "internal/queue/zz_verif_access.go": "harness/extra/queue_access.go",
    "pkg/secretstore/zz_verif_access.go": "harness/extra/secretstore_access.go",
}

# Files whose range statements over maps are rewritten to a seeded iteration order (instrumenter -ranges-only) in every
# build that compiles them, so that the order of what the real code does per map entry (appending one secret per
# member, registering one chain key per device, writing one key file per entry) is a function of the seed.
# Files that a check instruments fully get the same rewrite as part of the instrumentation.
DETERMINIZE = [
    "group_context.go", "store_metadata_index.go", "store_metadata.go", "connectedness_manager.go", "service.go",
    "account_export.go", "pkg/secretstore/device_keystore_wrapper.go",
]

# The same rewrite for files of the replication dependencies whose map iteration decides the order of fetches and
# head exchanges (their goroutines are otherwise uninstrumented).
DETERMINIZE_DEPS = {
    "berty.tech/go-orbit-db": ["stores/replicator/replicator.go", "baseorbitdb/orbitdb.go", "pubsub/oneonone/channel.go"],
    "berty.tech/go-ipfs-log": ["entry/entry_map.go", "entry/entry.go"],
}

CHECKS = {
    "C18": {
        "pkg": "pkg/protoio",
        "test": "TestVerifC18",
        "level": "exploration",
        "quick": {"procs": 32, "checks_per_proc": 20000},
        "thorough": {"procs": 64, "checks_per_proc": 400000},
        "rule": "one case = (variant, limit, frame sizes incl. limit-1/limit/limit+1, chunking of the byte "
                "stream into reads, fault kind and byte offset); non-trivial = the stream was chunked into "
                "more than one read or a fault (EOF, read error, write error, oversize, malformed length, "
                "garbage bytes) fired inside a frame; distinct = distinct hash of the full event trace",
        "required_probes": ["oversize_frame_rejected", "fault_inside_frame", "frame_at_limit_accepted",
                            "garbage_input"],
        "assumptions": COMMON_ASSUMPTIONS,
    },
    "C02": {
        "pkg": "pkg/secretstore",
        "test": "TestVerifC02",
        "level": "exploration",
        "quick": {"procs": 32, "checks_per_proc": 800},
        "thorough": {"procs": 64, "checks_per_proc": 6000},
        "rule": "one case = (window W in 1..4 or 100, group type, 1-2 senders, per sender n messages and up to 3 chain-key "
                "announcements taken at drawn counters, an arrival schedule of message deliveries / announcement deliveries / "
                "receiver restarts with repetitions, then a final probe of every counter twice); non-trivial = the schedule "
                "contained a reordering, a duplicate/retry, a re-registration or a restart; distinct = distinct hash of the "
                "abstract event trace (window, counters, outcomes), which does not depend on key material",
        "required_probes": ["window_edge_hit", "message_before_announcement", "older_announcement_after_registration",
                            "newer_announcement_after_registration"],
        "assumptions": COMMON_ASSUMPTIONS,
    },
    "C10": {
        "pkg": "pkg/secretstore",
        "test": "TestVerifC10",
        "level": "fault_enumeration",
        "quick": {"procs": 32, "checks_per_proc": 250},
        "thorough": {"procs": 64, "checks_per_proc": 5000},
        "rule": "one case = one seeded send/announce/register/open/named-key workload (window 1..4, batched or unbatched "
                "datastore writes, contact or multi-member group) for which EVERY datastore mutation index of the sender's "
                "and of the receiver's disk is taken as a crash point (restart on the first k mutations, batches atomic) and "
                "the four recovery clauses are evaluated; a sample of crash points also continues the remaining workload. "
                "non-trivial = at least one crash point fell strictly inside an operation; distinct = distinct hash of the "
                "workload trace (operation kinds and mutation ranges). faults_fired counts crash points.",
        "required_probes": ["crash_inside_open", "crash_inside_register", "crash_inside_seal",
                            "continuation_checked"],
        "assumptions": COMMON_ASSUMPTIONS + ["durability unit = one datastore mutation that returned (weshnet never calls Sync); batches are atomic"],
    },
    "C15": {
        "pkg": "internal/queue",
        "test": "TestVerifC15",
        "instrument": ["internal/queue"],
        "level": "exploration",
        "quick": {"procs": 32, "checks_per_proc": 12000},
        "thorough": {"procs": 64, "checks_per_proc": 240000},
        "rule": "one case = (scenario: 1-2 producers, 1-3 unique items, optional cancellation, optional concurrent Pop; or 1-2 tasks of "
                "Add/Next/NextAll/Size on the priority queue) x one goroutine schedule chosen at every instrumented lock/unlock/select "
                "of internal/queue by the seeded scheduler (3 strategies); non-trivial = the schedule contains at least one preemption "
                "(a switch away from a task that could have continued); distinct = distinct hash of the scheduler trace "
                "(task label and source site per step).",
        "required_probes": ["history_linearizable", "priority_queue_run", "consumer_blocked_at_end"],
        "assumptions": COMMON_ASSUMPTIONS + ["schedules are explored at the instrumented synchronisation points; code between two points runs atomically"],
    },
    "C16": {
        "level": "exploration",
        "parts": [
            {"pkg": ".", "test": "TestVerifC16", "instrument": ["connectedness_manager.go", "internal/notify"],
             "quick": {"procs": 16, "checks_per_proc": 5000}, "thorough": {"procs": 32, "checks_per_proc": 40000}},
            {"pkg": "pkg/lifecycle", "test": "TestVerifC16Lifecycle", "instrument": ["pkg/lifecycle", "internal/notify"],
             "quick": {"procs": 16, "checks_per_proc": 10000}, "thorough": {"procs": 32, "checks_per_proc": 80000}},
            {"pkg": "pkg/tinder", "test": "TestVerifC16PeerCache", "instrument": ["pkg/tinder/peer_cache.go", "internal/notify"],
             "quick": {"procs": 16, "checks_per_proc": 7000}, "thorough": {"procs": 32, "checks_per_proc": 50000}},
        ],
        "quick": {"procs": 16, "checks_per_proc": 5000},
        "thorough": {"procs": 32, "checks_per_proc": 40000},
        "rule": "one case = (scenario: 1-2 waiters with their own 'last seen' maps, one updater performing <= 3 associate/update "
                "operations, optional cancellation, optional pre-association) x one goroutine schedule chosen at every instrumented "
                "lock/unlock/channel operation of connectedness_manager.go / lifecycle manager / peer cache and of internal/notify; "
                "non-trivial = at least one preemption; distinct = distinct hash of the scheduler trace. The three parts "
                "(connectedness tracker, lifecycle manager, peer cache) run as separate worker processes.",
        "required_probes": ["waiter_blocked_at_end", "history_linearizable", "lifecycle_run", "peercache_run"],
        "assumptions": COMMON_ASSUMPTIONS + ["schedules are explored at the instrumented synchronisation points; code between two points runs atomically"],
    },
    "C09": {
        "pkg": "pkg/secretstore",
        "test": "TestVerifC09",
        "instrument": ["pkg/secretstore"],
        "level": "exploration",
        "quick": {"procs": 32, "checks_per_proc": 800},
        "thorough": {"procs": 64, "checks_per_proc": 5000},
        "rule": "one case = (group type, 2-4 sender tasks x 1-4 SealEnvelope calls on 1-2 groups, optional concurrent "
                "GetShareableChainKey/IsChainKeyKnownForDevice reader, warm-up counter) x one goroutine schedule chosen at every "
                "instrumented lock/unlock of pkg/secretstore and at every SimDisk read/write; non-trivial = at least one preemption; "
                "distinct = distinct hash of the scheduler trace (task label and site per step).",
        "required_probes": ["all_envelopes_opened", "lazy_chain_key_creation"],
        "assumptions": COMMON_ASSUMPTIONS + ["schedules are explored at the instrumented synchronisation points and datastore operations; code between two points runs atomically"],
    },
    "C04": {
        "level": "exploration",
        "parts": [
            {"pkg": ".", "test": "TestVerifC04", "proc_timeout": "60m",
             "quick": {"procs": 32, "checks_per_proc": 300}, "thorough": {"procs": 64, "checks_per_proc": 1800}},
            {"pkg": ".", "test": "TestVerifC04C", "proc_timeout": "60m", "instrument": ["store_metadata_index.go"],
             "quick": {"procs": 16, "checks_per_proc": 100}, "thorough": {"procs": 32, "checks_per_proc": 1500}},
        ],
        "rule": "one case = (2 of 3 cases) 2-3 real replicas (devices of one account on the account group) performing up to 15 seeded metadata "
                "operations (7 contact operations on 2 contacts, contact-request switch/seed, group join/leave, credentials), or (1 of 3) "
                "2-4 devices of different accounts (optionally two of one account) on a multi-member or contact group performing up to 15 "
                "group operations (member-device announcement, ownership claim, secret for a member, alias key/proof, app metadata, "
                "replication notice) with the members/devices/admins state compared, while the "
                "simulator chooses every delivery among all in-flight head announcements / head exchanges / block fetches (reordering, "
                "batching, drops, duplicates), partitions and heals, clean restarts and extra re-indexing; then anti-entropy to a "
                "fixpoint. non-trivial = at least one network delivery happened under simulator control; distinct = distinct hash "
                "of the event trace (operations, deliveries, faults in abstract names).",
        "required_probes": ["causally_ordered_history", "concurrent_history", "reindex", "reopen_same_entries",
                            "multimember_group_scenario", "contact_group_scenario", "group_fold_checked", "group_admin_claimed", "group_several_devices",
                            "overlapping_index_passes_checked"],
        "assumptions": COMMON_ASSUMPTIONS + ["each reaction of go-orbit-db/go-ipfs-log goroutines between two simulator events runs to quiescence (atomic step)"],
    },
    "C07": {
        "pkg": ".",
        "test": "TestVerifC07",
        "level": "exploration",
        "proc_timeout": "60m",
        "quick": {"procs": 32, "checks_per_proc": 300},
        "thorough": {"procs": 64, "checks_per_proc": 2500},
        "rule": "one case = a seeded sequence of 1-6 (densely) or 7-30 contact operations (enqueue, mark sent, incoming received, "
                "discard, accept, block, unblock; malformed variants: short/long/missing seed, bad key, own key) on 1-2 contacts by a "
                "writer device, with reopen of the account group at drawn points, and a second device that replays the log online "
                "under seeded delivery faults or afterwards in one batch; every operation is compared with the appendix-A table "
                "(refused / appended event) and every reported contact record with the reference fold. non-trivial = a malformed "
                "input, a reopen or at least one simulator-chosen delivery occurred; distinct = distinct hash of the operation/"
                "outcome/delivery trace.",
        "required_probes": ["refused_operation", "replica_checked"],
        "assumptions": COMMON_ASSUMPTIONS + ["nil public keys are not generated: the service layer never passes one to the store"],
    },
    "C13": {
        "pkg": ".",
        "test": "TestVerifC13",
        "level": "exploration",
        "proc_timeout": "60m",
        "quick": {"procs": 32, "checks_per_proc": 120},
        "thorough": {"procs": 64, "checks_per_proc": 1200},
        "rule": "one case = a writer appending 0..6 metadata and 0..6 message entries (interleaved by the seed) to a multi-member "
                "group, a second replica receiving them entry by entry, in one batch afterwards, or mixed (simulator-chosen "
                "deliveries), then every (since, until, reverse) combination over all entries plus the open end and an unknown "
                "identifier listed on both replicas and both stores, through ListEvents and again through the GroupMetadataList / "
                "GroupMessageList streams (until_now for the open end); non-trivial = at least one simulator-chosen delivery; distinct = "
                "distinct hash of the append/delivery trace. scheduler_or_event_steps counts individual listings checked.",
        "required_probes": ["invalid_range", "all_ranges_checked", "midway_listing"],
        "assumptions": COMMON_ASSUMPTIONS + ["the GroupMetadataList/GroupMessageList RPC wrappers are not driven; they pass since/until/reverse through unchanged"],
    },
    "C03": {
        "pkg": ".",
        "test": "TestVerifC03",
        "level": "fault_enumeration",
        "proc_timeout": "60m",
        "quick": {"procs": 32, "checks_per_proc": 60},
        "thorough": {"procs": 64, "checks_per_proc": 600},
        "rule": "one case = one group session (account group with a Byzantine third device, or multi-member group with a Byzantine "
                "member that may hold the group private key) in which (1) EVERY event type of the protocol (21) x EVERY forgery of the "
                "catalogue (other-device / group-key / member-key signature, signer swapped after signing, payload bit flip, signature "
                "bit flip, missing signature, unknown type number, wrong group secret, member-device event with one of its two "
                "signatures invalid) is sealed and offered to openGroupEnvelope, and (2) 1-4 rounds of seeded forged batches and "
                "valid control events are appended to the Byzantine member's real log and replicated to an honest replica under "
                "simulator-chosen deliveries. non-trivial = at least one simulator-chosen delivery; distinct = distinct hash of the "
                "trace. faults_fired counts forged envelopes per forgery kind.",
        "required_probes": ["valid_envelope_accepted", "forged_entries_replicated", "valid_entries_emitted"],
        "assumptions": COMMON_ASSUMPTIONS,
    },
    "C01": {
        "level": "fault_enumeration",
        "parts": [
            {"pkg": "pkg/secretstore", "test": "TestVerifC01",
             "quick": {"procs": 32, "checks_per_proc": 12}, "thorough": {"procs": 64, "checks_per_proc": 150}},
            {"pkg": ".", "test": "TestVerifC01M", "proc_timeout": "60m",
             "quick": {"procs": 16, "checks_per_proc": 50}, "thorough": {"procs": 32, "checks_per_proc": 600}},
        ],
        "rule": "one case = a three-party session (sender, receiver, Byzantine fellow member) on a contact / account / multi-member "
                "group with 1-6 sealed payloads of sizes {0,1,2,31,32,33,255,4096,65536,random}; for the envelopes in flight: every "
                "single-bit flip (all bits up to 2 KiB, 4096 seeded positions beyond), every pairwise field substitution, cross-group "
                "replay, re-attribution to another device/counter by the Byzantine member and payloads forged under the sender's "
                "genuine message key with five kinds of signature. part 2: one case = sender, receiver and Byzantine member replicating "
                "the message log of a multi-member group over the simulated network (key window from {100,2,3}); 1-4 genuine messages, "
                "the Byzantine member appends altered copies and forgeries (bit flips, ciphertext swap, re-attribution, payloads under "
                "the sender's or the receiver's own message key) as log entries of its own, simulator-chosen deliveries; observed at the "
                "receiver's GroupMessageEvent emissions at the fixpoint. non-trivial = at least one fault applied (always); distinct = "
                "distinct hash of the session trace. scheduler_or_event_steps counts individual altered envelopes delivered.",
        "required_probes": ["authentic_opened", "member_forgery_attempted", "forgery_as_opening_device_attempted", "genuine_opens_after_rejected_forgery",
                            "forged_entries_not_delivered", "genuine_messages_delivered"],
        "assumptions": COMMON_ASSUMPTIONS + ["the emission point of MessageStore (GroupMessageEvent) is exercised by C08, here the observation point is the secret store API the message store calls"],
    },
    "C14": {
        "level": "exploration",
        "parts": [
            {"pkg": "pkg/secretstore", "test": "TestVerifC14",
             "quick": {"procs": 32, "checks_per_proc": 400}, "thorough": {"procs": 64, "checks_per_proc": 4000}},
            {"pkg": ".", "test": "TestVerifC14S", "proc_timeout": "60m",
             "quick": {"procs": 16, "checks_per_proc": 50}, "thorough": {"procs": 32, "checks_per_proc": 600}},
        ],
        "rule": "one case = a receiver without network, 1-2 senders x 1-2 groups, message-key window and reference window each from "
                "{1,2,3,100}, messages sealed before and after the announcement, then a seeded schedule of log deliveries, push "
                "deliveries (genuine, bit-flipped, unknown group reference), repetitions and receiver restarts. part 2: one case = 1-2 "
                "senders and a receiver (online or partitioned, then healed) on a multi-member group in the simulated network, 1-6 "
                "messages appended through the real message store, push payloads sealed by the sender's OutOfStoreSeal and opened by the "
                "receiver's OutOfStoreReceive before / after / without the log delivery, repeatedly, then the fixpoint. non-trivial = always "
                "(each schedule mixes both paths); distinct = distinct hash of the delivery/outcome trace.",
        "required_probes": ["push_must_open", "push_opened", "reference_window_edge", "push_before_log", "push_after_log", "service_push_session_checked"],
        "assumptions": COMMON_ASSUMPTIONS + ["the reference-window update that MessageStore.processMessage performs after a log delivery is performed by the harness"],
    },
    "C05": {
        "level": "exploration",
        "parts": [
            {"pkg": "pkg/secretstore", "test": "TestVerifC05a",
             "quick": {"procs": 16, "checks_per_proc": 60}, "thorough": {"procs": 32, "checks_per_proc": 600}},
            {"pkg": ".", "test": "TestVerifC05b", "proc_timeout": "60m",
             "quick": {"procs": 16, "checks_per_proc": 40}, "thorough": {"procs": 32, "checks_per_proc": 500}},
            {"pkg": ".", "test": "TestVerifC05c", "proc_timeout": "60m",
             "instrument": ["store_message.go", "store_message_queue.go", "group_context.go", "internal/queue"],
             "quick": {"procs": 32, "checks_per_proc": 25}, "thorough": {"procs": 32, "checks_per_proc": 300}},
        ],
        "rule": "part (a): one case = (group type, window, sender history of 0-8 messages, announcement taken at a drawn counter) x "
                "{right recipient; another party in the same group; right recipient in another group; another claimed sender; every "
                "single-bit flip of the ciphertext; truncated/extended/empty blobs}, each attempt on a clone of the party's durable "
                "state. part (b): groups of 2-4 members with 1-2 devices in seeded join/activation orders over the simulated network "
                "(the C08 macro scenario) with the distribution oracle at the fixpoint. non-trivial = always (a) / a simulator-chosen "
                "delivery happened (b); distinct = distinct hash of the trace.",
        "required_probes": ["right_recipient_registered", "same_keys_other_group", "chain_keys_everywhere", "alterations_to_registered_recipient"],
        "assumptions": COMMON_ASSUMPTIONS,
    },
    "C11": {
        "level": "exploration",
        "parts": [
            {"pkg": "pkg/secretstore", "test": "TestVerifC11",
             "quick": {"procs": 32, "checks_per_proc": 150}, "thorough": {"procs": 64, "checks_per_proc": 4000}},
            {"pkg": "pkg/secretstore", "test": "TestVerifC11C", "instrument": ["pkg/secretstore"],
             "quick": {"procs": 16, "checks_per_proc": 400}, "thorough": {"procs": 32, "checks_per_proc": 6000}},
        ],
        "rule": "one case = 2-3 accounts growing to several devices through export/import, with a seeded sequence of first uses of "
                "derived keys in both orders, restarts, loss of the recomputable key-cache class on SimDisk, imports refused on used "
                "stores and malformed imports (equal keys, non-Ed25519, garbage, truncated, empty); after EVERY step the cross-store "
                "invariants are evaluated over all stores. non-trivial = an import, a restart, a cache loss or a refused import "
                "occurred; distinct = distinct hash of the step trace.",
        "required_probes": ["concurrent_first_use_checked"],
        "assumptions": COMMON_ASSUMPTIONS,
    },
    "C17": {
        "pkg": ".",
        "test": "TestVerifC17",
        "level": "exploration",
        "proc_timeout": "60m",
        "quick": {"procs": 32, "checks_per_proc": 1500},
        "thorough": {"procs": 64, "checks_per_proc": 120000},
        "rule": "one case = two peers with a rotation interval from {1 s, 2 s, 7 s, 1 min, 1 h, 24 h, static} on the simulated clock and a "
                "seeded history of 2-20 events: register (same or another period), advance the clock (within the period, exactly to the "
                "boundary, boundary -1 s / +1 s, across two boundaries, across the grace period), resolve, exchange rotation values, "
                "Marshal on one peer / Unmarshal on the other, own previous value during the grace period, foreign values; non-trivial "
                "= always (every history moves the clock or exchanges values); distinct = distinct hash of the event trace.",
        "required_probes": ["rotation_observed", "values_exchanged", "marshal_roundtrip", "previous_value_accepted_in_grace"],
        "assumptions": COMMON_ASSUMPTIONS + ["one bubble has one clock: no clock skew between the two peers"],
    },
    "C06": {
        "level": "fault_enumeration",
        "parts": [
            {"pkg": "internal/handshake", "test": "TestVerifC06",
             "quick": {"procs": 32, "checks_per_proc": 1500}, "thorough": {"procs": 64, "checks_per_proc": 15000}},
            {"pkg": ".", "test": "TestVerifC06R", "proc_timeout": "60m",
             "quick": {"procs": 16, "checks_per_proc": 60}, "thorough": {"procs": 32, "checks_per_proc": 800}},
        ],
        "rule": "one case = 2-4 honest accounts, one adversary account and 1-6 sessions, each drawn from the attack catalogue: faithful "
                "relay; one fault on a drawn frame and direction (bit flip, truncation, oversize, drop, duplicate, negative "
                "acknowledge, low-order/non-canonical hello, reflection); the adversary as legitimate responder / requester under its "
                "own key; the two-phase low-order relay attack with each of 12 degenerate points; wrong target key, foreign identity and "
                "target key types; replay of any frame recorded earlier in the run at a drawn position. part 2: one case = a responder "
                "node with its account group open and 1-5 sessions of the real requester side against the real "
                "handleIncomingRequest over a simulated stream (untouched; one fault on a handshake frame; contact message altered in "
                "flight; adversary as requester with contact variants; recorded frame replayed), observing the incoming-request "
                "events appended. non-trivial = always (every "
                "run has the adversary on the path); distinct = distinct hash of the session trace.",
        "required_probes": ["honest_handshake_completed", "responder_accepted", "requester_succeeded", "low_order_key_refused",
                            "honest_request_recorded", "mismatching_contact_refused"],
        "assumptions": COMMON_ASSUMPTIONS + ["the adversary is symbolic: it can do anything with bytes and keys it holds, it cannot forge Ed25519 signatures or open boxes without the key"],
    },
    "C12": {
        "level": "exploration",
        "parts": [
            {"pkg": ".", "test": "TestVerifC12", "proc_timeout": "60m",
             "quick": {"procs": 32, "checks_per_proc": 40}, "thorough": {"procs": 64, "checks_per_proc": 400}},
            {"pkg": ".", "test": "TestVerifC12S", "proc_timeout": "60m", "gomaxprocs": 2,
             "quick": {"procs": 32, "checks_per_proc": 8}, "thorough": {"procs": 64, "checks_per_proc": 120}},
        ],
        "rule": "one case = either (a) one random invitation offered to the real GroupJoin of a joiner's account group under every "
                "single-bit flip of its serialized bytes, field removal, group-type substitution and foreign secret/signature, then "
                "the genuine invitation and the identity check in the joined group; or (b) a group session of 2-3 members writing "
                "2-11 metadata/message entries with a replication node (real WeshOrbitDB in replication mode, descriptor only) in "
                "the simulated network under seeded deliveries; groups in (b) are multi-member (with or without link-key signature), "
                "contact and account groups. part 2: one case = a real service (TestingService) receiving a seeded session of 3-10 "
                "steps over 1-3 invitations: altered copies, genuine ones, activation, deactivation, GroupInfo, with the identity "
                "oracle on every joined group. non-trivial = a fault was applied (a) or a simulator-chosen delivery "
                "happened (b); distinct = distinct hash of the trace.",
        "required_probes": ["genuine_invitation_joined", "replication_node_converged", "descriptor_cannot_read",
                            "refused_before_genuine", "service_joined_group_identity_checked"],
        "assumptions": COMMON_ASSUMPTIONS,
    },
    "C20": {
        "pkg": ".",
        "test": "TestVerifC20",
        "level": "exploration",
        "proc_timeout": "60m",
        "quick": {"procs": 32, "checks_per_proc": 60},
        "thorough": {"procs": 64, "checks_per_proc": 1500},
        "rule": "one case = a seeded account history (0-9 contact / contact-request operations, optionally a joined multi-member group "
                "with 0-5 metadata/message entries, in half of these cases merged with the entries of another member written while "
                "partitioned) exported by the real service.export at that point, one archive fault from "
                "{none, flipped bit in an entry / heads / key member, dropped entry, dropped key, both keys dropped, duplicated key, "
                "duplicated entry, entry re-encoded non-canonically, reordered members, truncation, restore onto a used store} and the real RestoreAccountExport on a fresh node without "
                "network on the simulated clock; non-trivial = a fault was injected or the restored node was compared group by group; "
                "distinct = distinct hash of the trace.",
        "required_probes": ["restored_and_compared", "invalid_archive_rejected"],
        "assumptions": COMMON_ASSUMPTIONS,
    },
    "C08": {
        "level": "exploration",
        "proc_timeout": "60m",
        "parts": [
            {"pkg": ".", "test": "TestVerifC08M",
             "quick": {"procs": 24, "checks_per_proc": 40}, "thorough": {"procs": 48, "checks_per_proc": 500}},
            {"pkg": ".", "test": "TestVerifC08C",
             "instrument": ["store_message.go", "store_message_queue.go", "group_context.go", "internal/queue"],
             "quick": {"procs": 24, "checks_per_proc": 25}, "thorough": {"procs": 48, "checks_per_proc": 300}},
            {"pkg": "internal/queue", "test": "TestVerifC08Q", "instrument": ["internal/queue"],
             "quick": {"procs": 16, "checks_per_proc": 6000}, "thorough": {"procs": 32, "checks_per_proc": 60000}},
        ],
        "rule": "one case = 2-3 real devices of a multi-member group (optionally two devices of one member; precomputed-key window of the stores drawn from {100,1,2,3}) that activate their group "
                "context and send 1-8 messages at seeded points while the simulator chooses every delivery of entries and chain-key "
                "announcements (order, batching, drops, duplicates, late connection), then anti-entropy to a fixpoint; part C additionally "
                "interleaves the goroutines of the message pipeline at every instrumented lock/unlock/select with the seeded "
                "cooperative scheduler (2 devices, 1-3 messages). non-trivial = at least one simulator-chosen delivery; distinct = "
                "distinct hash of the trace.",
        "required_probes": ["chain_keys_everywhere", "messages_checked", "message_sealed_before_announcement"],
        "assumptions": COMMON_ASSUMPTIONS + ["part C: schedules are explored at the instrumented points of store_message.go, group_context.go and internal/queue; orbit-db reactions are atomic steps"],
    },
    "C19": {
        "pkg": ".",
        "test": "TestVerifC19",
        "level": "exploration",
        "proc_timeout": "60m",
        "gomaxprocs": 2,
        "quick": {"procs": 32, "checks_per_proc": 16},
        "thorough": {"procs": 64, "checks_per_proc": 500},
        "rule": "one case = a fresh real service (TestingService on an in-memory mocknet) receiving a seeded session of 1-25 steps: any "
                "method of the protocol service interface (found by reflection; 2 methods needing an external HTTP issuer excluded) "
                "with every request field drawn from an edge-value pool (nil, empty, 1/31/32/33/4096 bytes, valid keys known to the "
                "session, marshalled group/contact, protobuf garbage; nil or filled sub-messages), deactivation/reactivation of the "
                "account group or another group, joining a real multi-member group, and the exported decode/decrypt helpers on pool "
                "values. non-trivial = always (every session contains malformed requests); distinct = distinct hash of the request trace.",
        "required_probes": ["session_survived"],
        "assumptions": COMMON_ASSUMPTIONS + ["not scheduler-controlled: mocknet and service goroutines are real; replay relies on panics being deterministic functions of the request history",
                                             "requests are never nil themselves (gRPC always hands a message to the method)"],
    },
}
