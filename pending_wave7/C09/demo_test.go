package secretstore_test

import (
	"context"
	"fmt"
	"strings"
	"sync"
	"sync/atomic"
	"testing"
	"time"

	cid "github.com/ipfs/go-cid"
	datastore "github.com/ipfs/go-datastore"
	dssync "github.com/ipfs/go-datastore/sync"
	"github.com/stretchr/testify/require"
	"google.golang.org/protobuf/proto"

	"berty.tech/weshnet/v2"
	"berty.tech/weshnet/v2/pkg/protocoltypes"
	"berty.tech/weshnet/v2/pkg/secretstore"
)

// demoGateDatastore is a rendezvous on the read of the current chain key: the
// first reader that shows up once the gate is armed waits (bounded) for a
// second reader, then both perform their read and neither returns before the
// other has read too.
// When the senders are properly serialised, the second reader can only be the
// same task later on: the first one simply times out, reads alone, and nothing
// changes. When two senders are allowed in the read-seal-derive-store section
// together, they both read the same chain key before either stores the next.
type demoGateDatastore struct {
	datastore.Datastore

	armed    atomic.Bool
	arrivals atomic.Int32
	second   chan struct{}
	read1    chan struct{}
	read2    chan struct{}
}

func newDemoGateDatastore() *demoGateDatastore {
	return &demoGateDatastore{
		Datastore: dssync.MutexWrap(datastore.NewMapDatastore()),
		second:    make(chan struct{}),
		read1:     make(chan struct{}),
		read2:     make(chan struct{}),
	}
}

func (d *demoGateDatastore) Get(ctx context.Context, key datastore.Key) ([]byte, error) {
	// only the reads of the current chain key are gated (the device keystore
	// shares the datastore and reads it outside of any lock)
	if !d.armed.Load() || !strings.Contains(key.String(), "chainKeyForDeviceOnGroup") {
		return d.Datastore.Get(ctx, key)
	}

	switch d.arrivals.Add(1) {
	case 1:
		overlapped := false
		select {
		case <-d.second:
			overlapped = true
		case <-time.After(5 * time.Second):
		}

		value, err := d.Datastore.Get(ctx, key)
		close(d.read1)

		if overlapped {
			select {
			case <-d.read2:
			case <-time.After(5 * time.Second):
			}
		}

		return value, err

	case 2:
		close(d.second)

		value, err := d.Datastore.Get(ctx, key)
		close(d.read2)

		select {
		case <-d.read1:
		case <-time.After(10 * time.Second):
		}

		return value, err
	}

	return d.Datastore.Get(ctx, key)
}

func demoSendersOnTwoHandles(t *testing.T, g *protocoltypes.Group) {
	t.Helper()

	ctx, cancel := context.WithCancel(context.Background())
	defer cancel()

	gate := newDemoGateDatastore()

	sender, err := secretstore.NewSecretStore(gate, nil)
	require.NoError(t, err)
	t.Cleanup(func() { _ = sender.Close() })

	receiver, err := secretstore.NewInMemSecretStore(nil)
	require.NoError(t, err)
	t.Cleanup(func() { _ = receiver.Close() })

	senderMD, err := sender.GetOwnMemberDeviceForGroup(g)
	require.NoError(t, err)
	receiverMD, err := receiver.GetOwnMemberDeviceForGroup(g)
	require.NoError(t, err)

	// sender creates its chain key and hands it to the receiver
	ckForSelf, err := sender.GetShareableChainKey(ctx, g, senderMD.Member())
	require.NoError(t, err)
	require.NoError(t, sender.RegisterChainKey(ctx, g, senderMD.Device(), ckForSelf))

	ckForReceiver, err := sender.GetShareableChainKey(ctx, g, receiverMD.Member())
	require.NoError(t, err)
	require.NoError(t, receiver.RegisterChainKey(ctx, g, senderMD.Device(), ckForReceiver))

	// The same group, as held by two parts of the application (for instance
	// a group context that was closed and opened again while a send of the
	// previous one is still in flight): equal content, distinct objects.
	handles := []*protocoltypes.Group{g, proto.Clone(g).(*protocoltypes.Group)}

	const perSender = 3

	type sealed struct {
		env     []byte
		payload []byte
	}

	var (
		mu  sync.Mutex
		out []sealed
		wg  sync.WaitGroup
	)

	gate.armed.Store(true)

	for i, handle := range handles {
		wg.Add(1)
		go func(i int, handle *protocoltypes.Group) {
			defer wg.Done()

			for j := 0; j < perSender; j++ {
				payload, err := proto.Marshal(&protocoltypes.EncryptedMessage{Plaintext: []byte(fmt.Sprintf("sender %d message %d", i, j))})
				if err != nil {
					t.Errorf("marshal: %v", err)
					return
				}

				env, err := sender.SealEnvelope(ctx, handle, payload)
				if err != nil {
					t.Errorf("seal: %v", err)
					return
				}

				mu.Lock()
				out = append(out, sealed{env: env, payload: payload})
				mu.Unlock()
			}
		}(i, handle)
	}

	wg.Wait()
	gate.armed.Store(false)

	require.Len(t, out, len(handles)*perSender)

	seen := map[uint64]bool{}
	var minCounter, maxCounter uint64

	for i, s := range out {
		env, headers, err := receiver.OpenEnvelopeHeaders(s.env, g)
		require.NoError(t, err)

		require.Falsef(t, seen[headers.Counter], "counter %d protects two different payloads (same message key and nonce)", headers.Counter)
		seen[headers.Counter] = true

		if i == 0 || headers.Counter < minCounter {
			minCounter = headers.Counter
		}
		if headers.Counter > maxCounter {
			maxCounter = headers.Counter
		}

		gPK, err := g.GetPubKey()
		require.NoError(t, err)

		msg, err := receiver.OpenEnvelopePayload(ctx, env, headers, gPK, receiverMD.Device(), cid.Undef)
		require.NoErrorf(t, err, "counter %d does not open at the receiver", headers.Counter)

		clear, err := proto.Marshal(msg)
		require.NoError(t, err)
		require.Equal(t, s.payload, clear)
	}

	require.Equal(t, uint64(len(out)), maxCounter-minCounter+1, "counters must be gap-free")
}

func TestDemoConcurrentSendersTwoGroupHandles_MultiMember(t *testing.T) {
	g, _, err := weshnet.NewGroupMultiMember()
	require.NoError(t, err)

	demoSendersOnTwoHandles(t, g)
}
