package secretstore

import (
	"context"
	"fmt"
	"testing"

	"github.com/ipfs/go-cid"
	"github.com/stretchr/testify/require"
	"google.golang.org/protobuf/proto"

	"berty.tech/weshnet/v2/pkg/protocoltypes"
)

// demoLateMessage seals n messages on a sender, lets the receiver open
// messages 2..n in order while message 1 is held back, and finally delivers
// message 1. Every message k satisfies c < k <= c + window + opened at the time
// it is delivered, so every open must succeed and return the original payload.
func demoLateMessage(t *testing.T, window int, n int) {
	t.Helper()

	ctx, cancel := context.WithCancel(context.Background())
	defer cancel()

	g, _, err := protocoltypes.NewGroupMultiMember()
	require.NoError(t, err)

	sender, err := newInMemSecretStore(nil)
	require.NoError(t, err)

	receiver, err := newInMemSecretStore(&NewSecretStoreOptions{PreComputedKeysCount: window})
	require.NoError(t, err)

	omdS, err := sender.GetOwnMemberDeviceForGroup(g)
	require.NoError(t, err)

	omdR, err := receiver.GetOwnMemberDeviceForGroup(g)
	require.NoError(t, err)

	gPK, err := g.GetPubKey()
	require.NoError(t, err)

	ckForReceiver, err := sender.GetShareableChainKey(ctx, g, omdR.Member())
	require.NoError(t, err)

	require.NoError(t, receiver.RegisterChainKey(ctx, g, omdS.Device(), ckForReceiver))

	type sealed struct {
		env     []byte
		payload []byte
	}

	msgs := make([]sealed, n+1) // 1-based
	for i := 1; i <= n; i++ {
		payload, err := proto.Marshal(&protocoltypes.EncryptedMessage{Plaintext: []byte(fmt.Sprintf("payload #%d", i))})
		require.NoError(t, err)

		env, err := sender.SealEnvelope(ctx, g, payload)
		require.NoError(t, err)

		msgs[i] = sealed{env: env, payload: payload}
	}

	open := func(i int) {
		env, headers, err := receiver.OpenEnvelopeHeaders(msgs[i].env, g)
		require.NoError(t, err, "headers of message %d", i)

		clear, err := receiver.OpenEnvelopePayload(ctx, env, headers, gPK, omdR.Device(), cid.Undef)
		require.NoError(t, err, "message %d (window %d) must be openable", i, window)

		clearBytes, err := proto.Marshal(clear)
		require.NoError(t, err)
		require.Equal(t, msgs[i].payload, clearBytes, "payload of message %d", i)
	}

	// message 1 is late: everything else arrives first
	for i := 2; i <= n; i++ {
		open(i)
	}

	// the late message finally arrives
	open(1)
}

func TestDemoLateMessageDefaultWindow(t *testing.T) {
	demoLateMessage(t, 0 /* default: 100 */, 70)
}

func TestDemoLateMessageSmallWindow(t *testing.T) {
	demoLateMessage(t, 2, 70)
}
