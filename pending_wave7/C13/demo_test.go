package weshnet

import (
	"bytes"
	"context"
	"fmt"
	"testing"
	"time"

	"github.com/ipfs/go-cid"
	mh "github.com/multiformats/go-multihash"
	"github.com/stretchr/testify/require"

	ipfslogentry "berty.tech/go-ipfs-log/entry"
	ipliface "berty.tech/go-ipfs-log/iface"
	"berty.tech/weshnet/v2/pkg/errcode"
	"berty.tech/weshnet/v2/pkg/protocoltypes"
)

func demoEntries(t *testing.T, n int) []ipliface.IPFSLogEntry {
	t.Helper()

	out := make([]ipliface.IPFSLogEntry, n)
	for i := range out {
		sum, err := mh.Sum([]byte(fmt.Sprintf("demo-entry-%d", i)), mh.SHA2_256, -1)
		require.NoError(t, err)
		out[i] = &ipfslogentry.Entry{Hash: cid.NewCidV1(cid.Raw, sum)}
	}

	return out
}

// Exhaustive (since, until) check of the range selection over 0..6 entries,
// including the nil bound and an unknown identifier on each side.
func TestDemoRangeSelectionExhaustive(t *testing.T) {
	unknownSum, err := mh.Sum([]byte("demo-unknown"), mh.SHA2_256, -1)
	require.NoError(t, err)
	unknown := cid.NewCidV1(cid.Raw, unknownSum).Bytes()

	for n := 0; n <= 6; n++ {
		entries := demoEntries(t, n)

		// index -1 is "not set", index n is "unknown identifier"
		bound := func(i int) []byte {
			switch {
			case i < 0:
				return nil
			case i == n:
				return unknown
			default:
				return entries[i].GetHash().Bytes()
			}
		}

		for s := -1; s <= n; s++ {
			for u := -1; u <= n; u++ {
				name := fmt.Sprintf("n=%d since=%d until=%d", n, s, u)
				got, err := getEntriesInRange(entries, bound(s), bound(u))

				lo, hi := s, u
				if lo < 0 {
					lo = 0
				}
				if hi < 0 {
					hi = n - 1
				}

				if s == n || u == n || (lo > hi && n > 0) {
					require.Error(t, err, name)
					require.True(t, errcode.Is(err, errcode.ErrCode_ErrInvalidRange), name)
					continue
				}

				require.NoError(t, err, name)
				require.Len(t, got, hi-lo+1, name)
				for i := range got {
					require.True(t, got[i].GetHash().Equals(entries[lo+i].GetHash()), name)
				}
			}
		}
	}
}

func demoCollectMessages(t *testing.T, ch <-chan *protocoltypes.GroupMessageEvent) [][]byte {
	t.Helper()

	var ids [][]byte
	timeout := time.After(30 * time.Second)
	for {
		select {
		case evt, ok := <-ch:
			if !ok {
				return ids
			}
			ids = append(ids, evt.EventContext.Id)
		case <-timeout:
			t.Fatal("timeout while listing events")
		}
	}
}

// Same thing through the message store API: a range made of a single entry
// (since == until) has to yield exactly that entry, in both directions.
func TestDemoMessageStoreSingleEntryRange(t *testing.T) {
	ctx, cancel := context.WithCancel(context.Background())
	defer cancel()

	peers, _, cleanup := CreatePeersWithGroupTest(ctx, t, "/tmp/demo_c13_range", 1, 1)
	defer cleanup()

	store := peers[0].GC.MessageStore()

	const count = 4
	for i := 0; i < count; i++ {
		_, err := store.AddMessage(ctx, []byte(fmt.Sprintf("message %d", i)))
		require.NoError(t, err)
	}

	var all [][]byte
	deadline := time.Now().Add(30 * time.Second)
	for {
		ch, err := store.ListEvents(ctx, nil, nil, false)
		require.NoError(t, err)
		all = demoCollectMessages(t, ch)
		if len(all) == count || time.Now().After(deadline) {
			break
		}
		time.Sleep(100 * time.Millisecond)
	}
	require.Len(t, all, count)

	for i, id := range all {
		for _, reverse := range []bool{false, true} {
			ch, err := store.ListEvents(ctx, id, id, reverse)
			require.NoError(t, err, "since == until == entry %d, reverse=%v", i, reverse)
			got := demoCollectMessages(t, ch)
			require.Len(t, got, 1)
			require.True(t, bytes.Equal(id, got[0]))
		}
	}

	// a two entries range keeps working and is exactly reversed on demand
	ch, err := store.ListEvents(ctx, all[1], all[2], true)
	require.NoError(t, err)
	got := demoCollectMessages(t, ch)
	require.Equal(t, [][]byte{all[2], all[1]}, got)
}
