package weshnet

import (
	"context"
	"testing"
	"time"

	"github.com/libp2p/go-libp2p/p2p/host/eventbus"
	"github.com/stretchr/testify/require"

	"berty.tech/weshnet/v2/pkg/protocoltypes"
)

// Peer 0 sends one message BEFORE it produces the chain-key announcement for
// peer 1 (that message can never be opened by peer 1) and one message AFTER
// it. Both reach peer 1 while the chain key is still unknown, so both are
// parked. Once the chain key is registered, the later message is decryptable
// and must be delivered without any further event.
func TestDemoLateMessageNotStrandedBehindUnopenableOne(t *testing.T) {
	ctx, cancel := context.WithCancel(context.Background())
	defer cancel()

	peers, _, cleanup := CreatePeersWithGroupTest(ctx, t, "/tmp/message_test_demo", 2, 1)
	defer cleanup()

	dPK0 := peers[0].GC.DevicePubKey()
	dPK0Raw, err := dPK0.Raw()
	require.NoError(t, err)

	cadded, err := peers[1].GC.MessageStore().EventBus().Subscribe(
		new(messageItem), eventbus.BufSize(16))
	require.NoError(t, err)
	defer cadded.Close()

	early := []byte("sealed before the announcement")
	late := []byte("sealed after the announcement")

	_, err = peers[0].GC.MessageStore().AddMessage(ctx, early)
	require.NoError(t, err)

	// the announcement: made after `early`, before `late`
	ds0For1, err := peers[0].SecretStore.GetShareableChainKey(ctx, peers[0].GC.Group(), peers[1].GC.MemberPubKey())
	require.NoError(t, err)
	require.NotNil(t, ds0For1)

	_, err = peers[0].GC.MessageStore().AddMessage(ctx, late)
	require.NoError(t, err)

	// wait until both messages are parked on peer 1
	deadline := time.After(30 * time.Second)
	for {
		size, ok := peers[1].GC.MessageStore().CacheSizeForDevicePK(dPK0Raw)
		if ok && size == 2 {
			break
		}
		select {
		case <-cadded.Out():
		case <-time.After(50 * time.Millisecond):
		case <-deadline:
			require.FailNow(t, "timeout while waiting for the two messages to be parked on peer 1")
		}
	}

	cevent, err := peers[1].GC.MessageStore().EventBus().Subscribe(
		new(*protocoltypes.GroupMessageEvent), eventbus.BufSize(16))
	require.NoError(t, err)
	defer cevent.Close()

	// the announcement reaches peer 1
	err = peers[1].SecretStore.RegisterChainKey(ctx, peers[0].GC.Group(), dPK0, ds0For1)
	require.NoError(t, err)
	peers[1].GC.MessageStore().ProcessMessageQueueForDevicePK(ctx, dPK0Raw)

	// `late` is decryptable now: it must be delivered, with its payload and sender
	timeout := time.After(15 * time.Second)
	for {
		select {
		case e := <-cevent.Out():
			evt := e.(*protocoltypes.GroupMessageEvent)
			if string(evt.Message) == string(early) {
				continue // not required (and not expected), but harmless
			}
			require.Equal(t, late, evt.Message)
			require.Equal(t, dPK0Raw, evt.Headers.DevicePk)
			return
		case <-timeout:
			size, _ := peers[1].GC.MessageStore().CacheSizeForDevicePK(dPK0Raw)
			require.FailNowf(t, "decryptable message stayed parked",
				"message sealed after the chain-key announcement was not delivered; %d message(s) still parked", size)
		}
	}
}
