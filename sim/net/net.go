// Package net is SimNet + SimDag: the simulated world in which several real WeshOrbitDB replicas
// run inside one process (DESIGN.md section 3.2). It implements exactly the seams go-orbit-db and
// go-ipfs-log use: iface.PubSubInterface (head announcements), iface.DirectChannelFactory (head
// exchange on peer join) and coreiface.CoreAPI restricted to Dag().Add/Get and Key().Self()
// (entry transfer). Every message in flight, every join notification and every pending remote block
// fetch is an object owned by the simulator; nothing moves unless the simulator delivers it.
package net

import (
	"context"
	"fmt"
	"sort"
	"sync"

	"github.com/ipfs/boxo/path"
	"github.com/ipfs/go-cid"
	ipld "github.com/ipfs/go-ipld-format"
	coreiface "github.com/ipfs/kubo/core/coreiface"
	"github.com/libp2p/go-libp2p/core/peer"

	"berty.tech/go-orbit-db/events"
	"berty.tech/go-orbit-db/iface"
)

type Kind int

const (
	KindPubSub Kind = iota
	KindDirect
	KindJoin
	KindLeave
)

func (k Kind) String() string { return [...]string{"pubsub", "direct", "join", "leave"}[k] }

// Msg is one thing in flight.
type Msg struct {
	ID      int
	Kind    Kind
	From    int
	To      int
	Topic   string
	Payload []byte
	// Seq numbers the messages of one (kind, from, to, topic) stream in creation order; candidates are
	// presented to the simulator sorted by (from, to, kind, topic, seq), which does not depend on how the
	// Go runtime interleaved the goroutines that created messages of different streams.
	Seq int
}

// Fetch is a pending remote block fetch of a node (a goroutine of that node is parked on it).
type Fetch struct {
	ID   int
	Node int
	Cid  cid.Cid
	done chan struct{}
	ok   bool
	// waiters counts the goroutines parked on this fetch
	waiters int
}

type World struct {
	mu       sync.Mutex
	Nodes    []*Node
	conn     map[[2]int]bool
	inflight []*Msg
	fetches  []*Fetch
	nextID   int
	streams  map[string]int
	// EagerDag resolves remote fetches immediately from any connected holder (per-run knob).
	EagerDag bool
	// blockLabel: abstract, content-independent name of every block (creator node, creation rank)
	blockLabel map[cid.Cid]string
	blockSeq   map[int]int
	// TopicName maps a topic (store address) to a short stable name for traces.
	topicNames map[string]string

	Stats struct {
		Published, Delivered, Dropped, Duplicated, DirectSent, Joins, FetchesResolved, FetchesStalled, BlocksAdded int
	}
}

func NewWorld() *World {
	return &World{conn: map[[2]int]bool{}, topicNames: map[string]string{}, streams: map[string]int{}}
}

func pair(a, b int) [2]int {
	if a > b {
		a, b = b, a
	}
	return [2]int{a, b}
}

// ---------------------------------------------------------------------------------------------
// nodes

type Node struct {
	w      *World
	Index  int
	Label  string
	ID     peer.ID
	blocks map[cid.Cid]ipld.Node
	topics map[string]*Topic
	direct *directChannel
	down   bool

	coreiface.CoreAPI // nil: any method the real code is not expected to call panics
}

// AddNode creates a node. A restarted node keeps its Name, ID and block set (durable state) but gets
// fresh topics and direct channel: use Restart.
func (w *World) AddNode(name string, id peer.ID) *Node {
	w.mu.Lock()
	defer w.mu.Unlock()
	n := &Node{w: w, Index: len(w.Nodes), Label: name, ID: id, blocks: map[cid.Cid]ipld.Node{}, topics: map[string]*Topic{}}
	w.Nodes = append(w.Nodes, n)
	return n
}

// Restart drops the volatile network state of a node (subscriptions, direct channel); blocks stay.
// In-flight messages to the node are lost.
func (w *World) Restart(n *Node) {
	w.mu.Lock()
	for _, t := range n.topics {
		t.closeLocked()
	}
	n.topics = map[string]*Topic{}
	n.direct = nil
	var keep []*Msg
	for _, m := range w.inflight {
		if m.To != n.Index {
			keep = append(keep, m)
		}
	}
	w.inflight = keep
	w.mu.Unlock()
}

// CloseAll closes every subscription channel (end of a run, so that listener goroutines return).
func (w *World) CloseAll() {
	w.mu.Lock()
	defer w.mu.Unlock()
	for _, n := range w.Nodes {
		for _, t := range n.topics {
			t.closeLocked()
		}
	}
	for _, f := range w.fetches {
		close(f.done)
	}
	w.fetches = nil
}

func (n *Node) Key() coreiface.KeyAPI        { return keyAPI{n: n} }
func (n *Node) Dag() coreiface.APIDagService { return dagAPI{n} }

type keyAPI struct {
	coreiface.KeyAPI // nil: only Self is implemented
	n                *Node
}

func (k keyAPI) Self(context.Context) (coreiface.Key, error) { return selfKey{k.n}, nil }

type selfKey struct{ n *Node }

func (s selfKey) Name() string    { return "self" }
func (s selfKey) Path() path.Path { p, _ := path.NewPath("/ipns/" + s.n.ID.String()); return p }
func (s selfKey) ID() peer.ID     { return s.n.ID }

// Blocks returns the CIDs held by the node (sorted by string).
func (n *Node) Blocks() []cid.Cid {
	n.w.mu.Lock()
	defer n.w.mu.Unlock()
	out := make([]cid.Cid, 0, len(n.blocks))
	for c := range n.blocks {
		out = append(out, c)
	}
	sort.Slice(out, func(i, j int) bool { return out[i].String() < out[j].String() })
	return out
}

// Block returns a locally held block.
func (n *Node) GetBlock(c cid.Cid) (ipld.Node, bool) {
	n.w.mu.Lock()
	defer n.w.mu.Unlock()
	b, ok := n.blocks[c]
	return b, ok
}

// PutBlock stores a block directly (used by restore harnesses and Byzantine members).
func (n *Node) PutBlock(b ipld.Node) {
	n.w.mu.Lock()
	n.blocks[b.Cid()] = b
	n.w.mu.Unlock()
}

// ---------------------------------------------------------------------------------------------
// SimDag

type dagAPI struct{ n *Node }

func (d dagAPI) Add(ctx context.Context, nd ipld.Node) error {
	d.n.w.mu.Lock()
	if _, ok := d.n.blocks[nd.Cid()]; !ok {
		d.n.blocks[nd.Cid()] = nd
		d.n.w.Stats.BlocksAdded++
	}
	// abstract name of the block: (node that created it, how many blocks that node had created before). Block
	// identifiers are hashes of content that includes nonces; the simulator's candidate order must not depend on them.
	if d.n.w.blockLabel == nil {
		d.n.w.blockLabel = map[cid.Cid]string{}
		d.n.w.blockSeq = map[int]int{}
	}
	if _, ok := d.n.w.blockLabel[nd.Cid()]; !ok {
		d.n.w.blockSeq[d.n.Index]++
		d.n.w.blockLabel[nd.Cid()] = fmt.Sprintf("%03d#%07d", d.n.Index, d.n.w.blockSeq[d.n.Index])
	}
	d.n.w.mu.Unlock()
	return nil
}

func (d dagAPI) AddMany(ctx context.Context, nds []ipld.Node) error {
	for _, nd := range nds {
		_ = d.Add(ctx, nd)
	}
	return nil
}

func (d dagAPI) Pinning() ipld.NodeAdder { return d }

func (d dagAPI) Get(ctx context.Context, c cid.Cid) (ipld.Node, error) {
	w := d.n.w
	w.mu.Lock()
	if b, ok := d.n.blocks[c]; ok {
		w.mu.Unlock()
		return b, nil
	}
	if w.EagerDag {
		if b := w.findHolderLocked(d.n.Index, c); b != nil {
			d.n.blocks[c] = b
			w.Stats.FetchesResolved++
			w.mu.Unlock()
			return b, nil
		}
	}
	// one pending fetch per (node, block): concurrent requests of the same block by several goroutines of the
	// node's replicator wait on the same fetch, so the set of pending fetches at a quiescent point does not
	// depend on how many of them happened to ask before the first answer came
	var f *Fetch
	for _, x := range w.fetches {
		if x.Node == d.n.Index && x.Cid == c {
			f = x
			break
		}
	}
	if f == nil {
		w.nextID++
		f = &Fetch{ID: w.nextID, Node: d.n.Index, Cid: c, done: make(chan struct{})}
		w.fetches = append(w.fetches, f)
	}
	f.waiters++
	w.mu.Unlock()
	select {
	case <-f.done:
	case <-ctx.Done():
		w.mu.Lock()
		f.waiters--
		if f.waiters == 0 {
			w.removeFetchLocked(f)
		}
		w.mu.Unlock()
		return nil, ctx.Err()
	}
	w.mu.Lock()
	b, ok := d.n.blocks[c]
	w.mu.Unlock()
	if !ok {
		return nil, fmt.Errorf("simdag: block %s not found (world closed)", c)
	}
	return b, nil
}

func (d dagAPI) GetMany(ctx context.Context, cs []cid.Cid) <-chan *ipld.NodeOption {
	out := make(chan *ipld.NodeOption, len(cs))
	go func() {
		defer close(out)
		for _, c := range cs {
			nd, err := d.Get(ctx, c)
			out <- &ipld.NodeOption{Node: nd, Err: err}
		}
	}()
	return out
}

func (d dagAPI) Remove(ctx context.Context, c cid.Cid) error {
	d.n.w.mu.Lock()
	delete(d.n.blocks, c)
	d.n.w.mu.Unlock()
	return nil
}

func (d dagAPI) RemoveMany(ctx context.Context, cs []cid.Cid) error {
	for _, c := range cs {
		_ = d.Remove(ctx, c)
	}
	return nil
}

func (w *World) findHolderLocked(node int, c cid.Cid) ipld.Node {
	for _, o := range w.Nodes {
		if o.Index == node || o.down || !w.conn[pair(node, o.Index)] {
			continue
		}
		if b, ok := o.blocks[c]; ok {
			return b
		}
	}
	return nil
}

func (w *World) removeFetchLocked(f *Fetch) {
	for i, x := range w.fetches {
		if x == f {
			w.fetches = append(w.fetches[:i], w.fetches[i+1:]...)
			return
		}
	}
}

// PendingFetches lists fetches that can be resolved now (a connected node holds the block) and
// those that cannot (stalled).
func (w *World) PendingFetches() (resolvable, stalled []*Fetch) {
	w.mu.Lock()
	defer w.mu.Unlock()
	fs := append([]*Fetch(nil), w.fetches...)
	sort.SliceStable(fs, func(i, j int) bool {
		if fs[i].Node != fs[j].Node {
			return fs[i].Node < fs[j].Node
		}
		li, lj := w.blockLabel[fs[i].Cid], w.blockLabel[fs[j].Cid]
		if li != lj {
			return li < lj
		}
		return fs[i].Cid.String() < fs[j].Cid.String()
	})
	for _, f := range fs {
		if w.findHolderLocked(f.Node, f.Cid) != nil {
			resolvable = append(resolvable, f)
		} else {
			stalled = append(stalled, f)
		}
	}
	return
}

// ResolveFetch completes a pending fetch from a connected holder; false if none holds the block.
func (w *World) ResolveFetch(f *Fetch) bool {
	w.mu.Lock()
	b := w.findHolderLocked(f.Node, f.Cid)
	if b == nil {
		w.mu.Unlock()
		return false
	}
	w.Nodes[f.Node].blocks[f.Cid] = b
	w.removeFetchLocked(f)
	w.Stats.FetchesResolved++
	w.mu.Unlock()
	close(f.done)
	return true
}

// ---------------------------------------------------------------------------------------------
// connectivity

// Connect links two nodes; every topic both are subscribed to gets a join notification in flight
// in both directions (which triggers the real head exchange).
func (w *World) Connect(a, b int) {
	w.mu.Lock()
	defer w.mu.Unlock()
	if a == b || w.conn[pair(a, b)] {
		return
	}
	w.conn[pair(a, b)] = true
	w.announceLocked(a, b)
}

// Rejoin puts join notifications in flight between two already connected nodes (anti-entropy round).
func (w *World) Rejoin(a, b int) {
	w.mu.Lock()
	defer w.mu.Unlock()
	if a == b || !w.conn[pair(a, b)] {
		return
	}
	w.announceLocked(a, b)
}

func (w *World) announceLocked(a, b int) {
	na, nb := w.Nodes[a], w.Nodes[b]
	var names []string
	for name := range na.topics {
		if _, ok := nb.topics[name]; ok {
			names = append(names, name)
		}
	}
	sort.Strings(names)
	for _, name := range names {
		w.enqueueLocked(&Msg{Kind: KindJoin, From: b, To: a, Topic: name})
		w.enqueueLocked(&Msg{Kind: KindJoin, From: a, To: b, Topic: name})
	}
}

// Disconnect partitions two nodes; messages in flight between them are lost.
func (w *World) Disconnect(a, b int) {
	w.mu.Lock()
	defer w.mu.Unlock()
	delete(w.conn, pair(a, b))
	var keep []*Msg
	for _, m := range w.inflight {
		if pair(m.From, m.To) == pair(a, b) {
			w.Stats.Dropped++
			continue
		}
		keep = append(keep, m)
	}
	w.inflight = keep
}

func (w *World) Connected(a, b int) bool {
	w.mu.Lock()
	defer w.mu.Unlock()
	return w.conn[pair(a, b)]
}

func (w *World) enqueueLocked(m *Msg) {
	w.nextID++
	m.ID = w.nextID
	k := fmt.Sprintf("%d/%d/%d/%s", m.Kind, m.From, m.To, m.Topic)
	w.streams[k]++
	m.Seq = w.streams[k]
	w.inflight = append(w.inflight, m)
}

// InFlight returns a snapshot of the messages in flight in canonical order.
func (w *World) InFlight() []*Msg {
	w.mu.Lock()
	defer w.mu.Unlock()
	out := append([]*Msg(nil), w.inflight...)
	sort.SliceStable(out, func(i, j int) bool {
		a, b := out[i], out[j]
		switch {
		case a.From != b.From:
			return a.From < b.From
		case a.To != b.To:
			return a.To < b.To
		case a.Kind != b.Kind:
			return a.Kind < b.Kind
		case a.Topic != b.Topic:
			return a.Topic < b.Topic
		}
		return a.Seq < b.Seq
	})
	return out
}

func (w *World) take(m *Msg) bool {
	for i, x := range w.inflight {
		if x == m {
			w.inflight = append(w.inflight[:i], w.inflight[i+1:]...)
			return true
		}
	}
	return false
}

// Drop loses a message in flight.
func (w *World) Drop(m *Msg) {
	w.mu.Lock()
	if w.take(m) {
		w.Stats.Dropped++
	}
	w.mu.Unlock()
}

// Duplicate puts a copy of a message in flight.
func (w *World) Duplicate(m *Msg) {
	w.mu.Lock()
	c := *m
	w.enqueueLocked(&c)
	w.Stats.Duplicated++
	w.mu.Unlock()
}

// Inject puts an arbitrary message in flight (replay of an old announcement, corrupted copy).
func (w *World) Inject(m *Msg) {
	w.mu.Lock()
	w.enqueueLocked(m)
	w.mu.Unlock()
}

// Deliver hands a message to the receiving node's real code. Returns false if it could not be
// delivered (receiver gone or not subscribed): the message is lost.
func (w *World) Deliver(m *Msg) bool {
	w.mu.Lock()
	if !w.take(m) {
		w.mu.Unlock()
		return false
	}
	to := w.Nodes[m.To]
	from := w.Nodes[m.From]
	if to.down || !w.conn[pair(m.From, m.To)] {
		w.Stats.Dropped++
		w.mu.Unlock()
		return false
	}
	switch m.Kind {
	case KindPubSub:
		t := to.topics[m.Topic]
		if t == nil || t.closed {
			w.Stats.Dropped++
			w.mu.Unlock()
			return false
		}
		w.Stats.Delivered++
		w.mu.Unlock()
		t.chMsgs <- &iface.EventPubSubMessage{Content: m.Payload}
	case KindJoin, KindLeave:
		t := to.topics[m.Topic]
		if t == nil || t.closed {
			w.mu.Unlock()
			return false
		}
		w.Stats.Joins++
		w.mu.Unlock()
		if m.Kind == KindJoin {
			t.chPeers <- &iface.EventPubSubJoin{Topic: m.Topic, Peer: from.ID}
		} else {
			t.chPeers <- &iface.EventPubSubLeave{Topic: m.Topic, Peer: from.ID}
		}
	case KindDirect:
		d := to.direct
		if d == nil {
			w.Stats.Dropped++
			w.mu.Unlock()
			return false
		}
		w.Stats.Delivered++
		w.mu.Unlock()
		_ = d.emitter.Emit(&iface.EventPubSubPayload{Payload: m.Payload, Peer: from.ID})
	}
	return true
}

// TopicName returns a short stable name for a topic (registration order).
func (w *World) TopicName(topic string) string {
	w.mu.Lock()
	defer w.mu.Unlock()
	if n, ok := w.topicNames[topic]; ok {
		return n
	}
	n := fmt.Sprintf("T%d", len(w.topicNames))
	w.topicNames[topic] = n
	return n
}

// ---------------------------------------------------------------------------------------------
// pubsub

// PubSub returns the iface.PubSubInterface of a node.
func (n *Node) PubSubIface() iface.PubSubInterface { return pubsubIface{n} }

type pubsubIface struct{ n *Node }

type Topic struct {
	n       *Node
	name    string
	chPeers chan events.Event
	chMsgs  chan *iface.EventPubSubMessage
	closed  bool
}

func (t *Topic) closeLocked() {
	if !t.closed {
		t.closed = true
		close(t.chPeers)
		close(t.chMsgs)
	}
}

func (p pubsubIface) TopicSubscribe(ctx context.Context, topic string) (iface.PubSubTopic, error) {
	w := p.n.w
	w.mu.Lock()
	defer w.mu.Unlock()
	if t, ok := p.n.topics[topic]; ok && !t.closed {
		return t, nil
	}
	t := &Topic{n: p.n, name: topic, chPeers: make(chan events.Event, 4096), chMsgs: make(chan *iface.EventPubSubMessage, 4096)}
	p.n.topics[topic] = t
	if _, ok := w.topicNames[topic]; !ok {
		w.topicNames[topic] = fmt.Sprintf("T%d", len(w.topicNames))
	}
	// peers already subscribed and connected learn about each other
	for _, o := range w.Nodes {
		if o.Index == p.n.Index || o.down || !w.conn[pair(o.Index, p.n.Index)] {
			continue
		}
		if ot, ok := o.topics[topic]; ok && !ot.closed {
			w.enqueueLocked(&Msg{Kind: KindJoin, From: o.Index, To: p.n.Index, Topic: topic})
			w.enqueueLocked(&Msg{Kind: KindJoin, From: p.n.Index, To: o.Index, Topic: topic})
		}
	}
	return t, nil
}

func (t *Topic) Publish(ctx context.Context, message []byte) error {
	w := t.n.w
	w.mu.Lock()
	defer w.mu.Unlock()
	w.Stats.Published++
	for _, o := range w.Nodes {
		if o.Index == t.n.Index || o.down || !w.conn[pair(o.Index, t.n.Index)] {
			continue
		}
		if ot, ok := o.topics[t.name]; ok && !ot.closed {
			w.enqueueLocked(&Msg{Kind: KindPubSub, From: t.n.Index, To: o.Index, Topic: t.name, Payload: append([]byte(nil), message...)})
		}
	}
	return nil
}

func (t *Topic) Peers(ctx context.Context) ([]peer.ID, error) {
	w := t.n.w
	w.mu.Lock()
	defer w.mu.Unlock()
	var out []peer.ID
	for _, o := range w.Nodes {
		if o.Index == t.n.Index || o.down || !w.conn[pair(o.Index, t.n.Index)] {
			continue
		}
		if ot, ok := o.topics[t.name]; ok && !ot.closed {
			out = append(out, o.ID)
		}
	}
	return out, nil
}

func (t *Topic) WatchPeers(ctx context.Context) (<-chan events.Event, error) { return t.chPeers, nil }
func (t *Topic) WatchMessages(ctx context.Context) (<-chan *iface.EventPubSubMessage, error) {
	return t.chMsgs, nil
}
func (t *Topic) Topic() string { return t.name }

// ---------------------------------------------------------------------------------------------
// direct channel

type directChannel struct {
	n       *Node
	emitter iface.DirectChannelEmitter
}

// DirectChannelFactory returns the factory to pass in NewOrbitDBOptions.
func (n *Node) DirectChannelFactory() iface.DirectChannelFactory {
	return func(ctx context.Context, emitter iface.DirectChannelEmitter, opts *iface.DirectChannelOptions) (iface.DirectChannel, error) {
		d := &directChannel{n: n, emitter: emitter}
		n.w.mu.Lock()
		n.direct = d
		n.w.mu.Unlock()
		return d, nil
	}
}

func (d *directChannel) nodeByID(p peer.ID) *Node {
	for _, o := range d.n.w.Nodes {
		if o.ID == p {
			return o
		}
	}
	return nil
}

func (d *directChannel) Connect(ctx context.Context, p peer.ID) error {
	w := d.n.w
	w.mu.Lock()
	defer w.mu.Unlock()
	o := d.nodeByID(p)
	if o == nil || o.down || !w.conn[pair(o.Index, d.n.Index)] {
		return fmt.Errorf("simnet: peer not reachable")
	}
	return nil
}

func (d *directChannel) Send(ctx context.Context, p peer.ID, data []byte) error {
	w := d.n.w
	w.mu.Lock()
	defer w.mu.Unlock()
	o := d.nodeByID(p)
	if o == nil || o.down || !w.conn[pair(o.Index, d.n.Index)] {
		return fmt.Errorf("simnet: peer not reachable")
	}
	w.Stats.DirectSent++
	w.enqueueLocked(&Msg{Kind: KindDirect, From: d.n.Index, To: o.Index, Payload: append([]byte(nil), data...)})
	return nil
}

func (d *directChannel) Close() error { return nil }

// SetDown marks a node as crashed/stopped (it neither receives nor serves blocks).
func (w *World) SetDown(n *Node, down bool) {
	w.mu.Lock()
	n.down = down
	w.mu.Unlock()
}
