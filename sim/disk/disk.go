// Package disk is SimDisk: a datastore.Batching over an ordered map with an append-only mutation
// log (put / delete / batch commit; batches are atomic, as on badger and on the SQLCipher datastore
// weshnet ships). A crash is "state after the first k mutations"; weshnet never calls Sync, so a
// mutation that returned is durable (statement of C10).
package disk

import (
	"context"
	"errors"
	"sort"
	"strings"
	"sync"

	ds "github.com/ipfs/go-datastore"
	dsq "github.com/ipfs/go-datastore/query"
)

// ErrInjected is returned by operations selected by FailOp.
var ErrInjected = errors.New("verifsim: injected datastore error")

type op struct {
	key string
	val []byte
	del bool
}

// Mutation is one atomic durable change.
type Mutation struct {
	Kind string // put, delete, batch
	Keys []string
	ops  []op
}

type Disk struct {
	mu  sync.Mutex
	m   map[string][]byte
	log []Mutation

	// Hook, if set, is called before every operation, outside the disk lock (scheduling point).
	Hook func(opname string, key string)
	// FailOp, if set, may make an operation fail with ErrInjected (before any effect).
	FailOp func(opname string, key string) bool
	// Detached makes every mutation a no-op (zombie writes of a crashed node are discarded).
	Detached bool

	Reads, Writes int
}

func New() *Disk { return &Disk{m: map[string][]byte{}} }

// Mutations returns the number of durable mutations applied so far.
func (d *Disk) Mutations() int {
	d.mu.Lock()
	defer d.mu.Unlock()
	return len(d.log)
}

// Log returns a copy of the mutation log (kinds and keys only).
func (d *Disk) Log() []Mutation {
	d.mu.Lock()
	defer d.mu.Unlock()
	out := make([]Mutation, len(d.log))
	for i, m := range d.log {
		out[i] = Mutation{Kind: m.Kind, Keys: append([]string(nil), m.Keys...)}
	}
	return out
}

// Snapshot returns a new disk holding the state after the first k mutations (its log is that prefix).
func (d *Disk) Snapshot(k int) *Disk {
	d.mu.Lock()
	defer d.mu.Unlock()
	if k > len(d.log) {
		k = len(d.log)
	}
	n := New()
	for _, m := range d.log[:k] {
		n.applyLocked(m)
	}
	return n
}

// Clone copies the current state.
func (d *Disk) Clone() *Disk { return d.Snapshot(1 << 60) }

// DropKeys deletes (as one mutation) every key for which pred is true; returns how many.
func (d *Disk) DropKeys(pred func(key string) bool) int {
	d.mu.Lock()
	defer d.mu.Unlock()
	var mu Mutation
	mu.Kind = "drop"
	for k := range d.m {
		if pred(k) {
			mu.ops = append(mu.ops, op{key: k, del: true})
		}
	}
	sort.Slice(mu.ops, func(i, j int) bool { return mu.ops[i].key < mu.ops[j].key })
	for _, o := range mu.ops {
		mu.Keys = append(mu.Keys, o.key)
	}
	if len(mu.ops) > 0 {
		d.applyLocked(mu)
	}
	return len(mu.ops)
}

// Keys returns the sorted keys currently stored.
func (d *Disk) Keys() []string {
	d.mu.Lock()
	defer d.mu.Unlock()
	out := make([]string, 0, len(d.m))
	for k := range d.m {
		out = append(out, k)
	}
	sort.Strings(out)
	return out
}

// Peek reads a key without counting or hooks.
func (d *Disk) Peek(key string) ([]byte, bool) {
	d.mu.Lock()
	defer d.mu.Unlock()
	v, ok := d.m[key]
	return v, ok
}

func (d *Disk) applyLocked(m Mutation) {
	for _, o := range m.ops {
		if o.del {
			delete(d.m, o.key)
		} else {
			d.m[o.key] = o.val
		}
	}
	d.log = append(d.log, m)
}

func (d *Disk) pre(opname, key string) error {
	if d.Hook != nil {
		d.Hook(opname, key)
	}
	if d.FailOp != nil && d.FailOp(opname, key) {
		return ErrInjected
	}
	return nil
}

func (d *Disk) Get(ctx context.Context, key ds.Key) ([]byte, error) {
	if err := d.pre("get", key.String()); err != nil {
		return nil, err
	}
	d.mu.Lock()
	defer d.mu.Unlock()
	d.Reads++
	v, ok := d.m[key.String()]
	if !ok {
		return nil, ds.ErrNotFound
	}
	return append([]byte(nil), v...), nil
}

func (d *Disk) Has(ctx context.Context, key ds.Key) (bool, error) {
	if err := d.pre("has", key.String()); err != nil {
		return false, err
	}
	d.mu.Lock()
	defer d.mu.Unlock()
	d.Reads++
	_, ok := d.m[key.String()]
	return ok, nil
}

func (d *Disk) GetSize(ctx context.Context, key ds.Key) (int, error) {
	if err := d.pre("getsize", key.String()); err != nil {
		return -1, err
	}
	d.mu.Lock()
	defer d.mu.Unlock()
	v, ok := d.m[key.String()]
	if !ok {
		return -1, ds.ErrNotFound
	}
	return len(v), nil
}

func (d *Disk) Query(ctx context.Context, q dsq.Query) (dsq.Results, error) {
	if err := d.pre("query", q.Prefix); err != nil {
		return nil, err
	}
	d.mu.Lock()
	keys := make([]string, 0, len(d.m))
	for k := range d.m {
		keys = append(keys, k)
	}
	sort.Strings(keys)
	entries := make([]dsq.Entry, 0, len(keys))
	for _, k := range keys {
		v := d.m[k]
		e := dsq.Entry{Key: k, Size: len(v)}
		if !q.KeysOnly {
			e.Value = append([]byte(nil), v...)
		}
		entries = append(entries, e)
	}
	d.mu.Unlock()
	r := dsq.ResultsWithEntries(q, entries)
	return dsq.NaiveQueryApply(q, r), nil
}

func (d *Disk) Put(ctx context.Context, key ds.Key, value []byte) error {
	if err := d.pre("put", key.String()); err != nil {
		return err
	}
	d.mu.Lock()
	defer d.mu.Unlock()
	d.Writes++
	if d.Detached {
		return nil
	}
	k := key.String()
	d.applyLocked(Mutation{Kind: "put", Keys: []string{k}, ops: []op{{key: k, val: append([]byte(nil), value...)}}})
	return nil
}

func (d *Disk) Delete(ctx context.Context, key ds.Key) error {
	if err := d.pre("delete", key.String()); err != nil {
		return err
	}
	d.mu.Lock()
	defer d.mu.Unlock()
	d.Writes++
	if d.Detached {
		return nil
	}
	k := key.String()
	d.applyLocked(Mutation{Kind: "delete", Keys: []string{k}, ops: []op{{key: k, del: true}}})
	return nil
}

func (d *Disk) Sync(ctx context.Context, prefix ds.Key) error { return nil }
func (d *Disk) Close() error                                  { return nil }

type batch struct {
	d   *Disk
	ops []op
}

func (d *Disk) Batch(ctx context.Context) (ds.Batch, error) { return &batch{d: d}, nil }

func (b *batch) Put(ctx context.Context, key ds.Key, value []byte) error {
	b.ops = append(b.ops, op{key: key.String(), val: append([]byte(nil), value...)})
	return nil
}

func (b *batch) Delete(ctx context.Context, key ds.Key) error {
	b.ops = append(b.ops, op{key: key.String(), del: true})
	return nil
}

func (b *batch) Commit(ctx context.Context) error {
	first := ""
	if len(b.ops) > 0 {
		first = b.ops[0].key
	}
	if err := b.d.pre("commit", first); err != nil {
		return err
	}
	b.d.mu.Lock()
	defer b.d.mu.Unlock()
	b.d.Writes++
	if b.d.Detached || len(b.ops) == 0 {
		return nil
	}
	m := Mutation{Kind: "batch", ops: b.ops}
	for _, o := range b.ops {
		m.Keys = append(m.Keys, o.key)
	}
	b.d.applyLocked(m)
	b.ops = nil
	return nil
}

// KeyClass gives a coarse class name of a secret-store datastore key (for traces and counters).
func KeyClass(key string) string {
	parts := strings.Split(strings.TrimPrefix(key, "/"), "/")
	if len(parts) == 0 {
		return "?"
	}
	return parts[0]
}

var _ ds.Batching = (*Disk)(nil)
