// Package sched is the cooperative goroutine scheduler of the controlled-interleaving tier
// (DESIGN.md section 4). Instrumented copies of the weshnet sources call the helpers below at every
// lock/unlock/channel operation/select; with no scheduler active every helper is a direct call of
// the original operation. With a scheduler active (inside a testing/synctest bubble) real
// goroutines park at these points on private channels and are released one at a time by a seeded
// choice; synctest.Wait tells the scheduler when the released goroutine has parked again, blocked
// for real, or finished.
package sched

import (
	"bytes"
	"fmt"
	"os"
	"reflect"
	"runtime"
	"sort"
	"strconv"
	"sync"
	"sync/atomic"
	"testing/synctest"

	"berty.tech/weshnet/v2/pkg/verifsimorder"
)

type opKind int

const (
	opPoint opKind = iota
	opLock
	opRLock
	opStart
)

// Task is a goroutine known to the scheduler.
type Task struct {
	ID    int
	Label string
	gid   uint64
	wake  chan struct{}

	// state (owned by the scheduler lock)
	parked   bool
	kind     opKind
	lockKey  uintptr
	Site     string // last point reached
	Done     bool
	prio     int
	held     []uintptr
	blockedS string // description of the real blocking operation entered after Site (select/recv/...)
}

type lockState struct {
	writer  *Task
	readers map[*Task]int
}

// Chooser returns a choice in [0,n).
type Chooser func(n int) int

// S is one scheduler instance (one simulated run).
type S struct {
	mu      sync.Mutex
	tasks   []*Task
	byGid   map[uint64]*Task
	locks   map[uintptr]*lockState
	choose  Chooser
	free    bool   // free-run mode: points are no-ops, parked tasks are released
	abort   bool   // abort mode: every task exits (runtime.Goexit) at its next point
	exempt  uint64 // goroutine that created the scheduler (the harness main loop): never a task
	cur     *Task
	wg      sync.WaitGroup
	Steps   int
	Trace   func(format string, args ...any)
	strat   int
	changes map[int]bool
	// LockEdges records the lock-acquisition order observed: "held -> acquired" by site.
	LockEdges map[string]int
	// Preemptions counts decisions that switched away from a still-enabled current task.
	Preemptions int
	// Uncontrolled counts operations the instrumenter left to the Go runtime.
	Deadlock string
}

var active atomic.Pointer[S]

// Deactivate removes any scheduler left active by a previous run (start of a new simulated run).
func Deactivate() { active.Store(nil) }

// New creates a scheduler and makes it the active one. strategy: 0 non-preemptive baseline with
// seeded deviations, 1 uniform random walk, 2 PCT-style priorities with change points.
func New(choose Chooser, strategy int, trace func(string, ...any)) *S {
	s := &S{byGid: map[uint64]*Task{}, locks: map[uintptr]*lockState{}, choose: choose, Trace: trace,
		strat: strategy, changes: map[int]bool{}, LockEdges: map[string]int{}, exempt: goid()}
	if strategy == 2 {
		for i := 0; i < 3; i++ {
			s.changes[1+choose(40)] = true
		}
	}
	active.Store(s)
	return s
}

func goid() uint64 {
	var buf [64]byte
	b := buf[:runtime.Stack(buf[:], false)]
	b = bytes.TrimPrefix(b, []byte("goroutine "))
	i := bytes.IndexByte(b, ' ')
	n, _ := strconv.ParseUint(string(b[:i]), 10, 64)
	return n
}

func (s *S) taskForCurrent(label string) *Task {
	g := goid()
	if t, ok := s.byGid[g]; ok {
		return t
	}
	t := &Task{ID: len(s.tasks), Label: label, gid: g, wake: make(chan struct{})}
	if t.Label == "" {
		t.Label = fmt.Sprintf("g%d", t.ID)
	}
	if s.strat == 2 {
		t.prio = 1 + s.choose(1000)
	}
	s.tasks = append(s.tasks, t)
	s.byGid[g] = t
	return t
}

// Go starts fn as a labelled task; it parks before running its first statement.
func (s *S) Go(label string, fn func()) *Task {
	ready := make(chan *Task)
	s.wg.Add(1)
	go func() {
		defer s.wg.Done()
		s.mu.Lock()
		t := s.taskForCurrent(label)
		s.mu.Unlock()
		ready <- t
		defer func() {
			s.mu.Lock()
			t.Done = true
			s.mu.Unlock()
		}()
		s.park(t, opStart, 0, "start:"+label)
		fn()
	}()
	return <-ready
}

// park registers the calling task at a point and blocks until the scheduler releases it.
func (s *S) park(t *Task, kind opKind, key uintptr, site string) {
	s.mu.Lock()
	if s.free {
		s.mu.Unlock()
		return
	}
	if s.abort {
		s.mu.Unlock()
		runtime.Goexit()
	}
	t.parked, t.kind, t.lockKey, t.Site, t.blockedS = true, kind, key, site, ""
	s.mu.Unlock()
	<-t.wake
	s.mu.Lock()
	ab := s.abort
	s.mu.Unlock()
	if ab {
		runtime.Goexit()
	}
}

// Abort ends the run: every task exits (runtime.Goexit, deferred calls run) at the point where it is
// parked or at the next point it reaches; the caller must first make every really blocked task able
// to move (cancel contexts). Unlike Finish it also terminates after a realised deadlock, because no
// task ever touches a real lock again.
func (s *S) Abort() {
	s.mu.Lock()
	s.abort = true
	var rel []*Task
	for _, t := range s.tasks {
		if t.parked {
			t.parked = false
			rel = append(rel, t)
		}
	}
	s.mu.Unlock()
	for _, t := range rel {
		t.wake <- struct{}{}
	}
	s.wg.Wait()
	// the aborted scheduler stays the active one (until the next New): goroutines of the code under test that
	// are still unwinding must keep seeing abort mode
}

func (s *S) enabled(t *Task) bool {
	if !t.parked {
		return false
	}
	switch t.kind {
	case opLock:
		ls := s.locks[t.lockKey]
		return ls == nil || (ls.writer == nil && len(ls.readers) == 0)
	case opRLock:
		ls := s.locks[t.lockKey]
		return ls == nil || ls.writer == nil
	}
	return true
}

// Tasks returns a snapshot of all tasks.
func (s *S) Tasks() []*Task {
	s.mu.Lock()
	defer s.mu.Unlock()
	return append([]*Task(nil), s.tasks...)
}

// Step waits for quiescence, then releases one enabled task chosen by the strategy.
// It returns false when no task is enabled (all finished, blocked for real, or deadlocked).
func (s *S) Step() bool {
	synctest.Wait()
	s.mu.Lock()
	var en []*Task
	for _, t := range s.tasks {
		if s.enabled(t) {
			en = append(en, t)
		}
	}
	if len(en) == 0 {
		s.mu.Unlock()
		return false
	}
	sort.Slice(en, func(i, j int) bool { return en[i].ID < en[j].ID })
	var pick *Task
	curEnabled := false
	for _, t := range en {
		if t == s.cur {
			curEnabled = true
		}
	}
	switch s.strat {
	case 1:
		pick = en[s.choose(len(en))]
	case 2:
		if s.changes[s.Steps] && s.cur != nil {
			s.cur.prio = -s.Steps
		}
		pick = en[0]
		for _, t := range en {
			if t.prio > pick.prio {
				pick = t
			}
		}
	default:
		// baseline: keep running the current task; a non-zero choice word deviates
		c := s.choose(len(en) * 3)
		if curEnabled && c < len(en)*2 {
			pick = s.cur
		} else {
			pick = en[c%len(en)]
		}
	}
	if curEnabled && pick != s.cur {
		s.Preemptions++
	}
	s.cur = pick
	s.Steps++
	pick.parked = false
	switch pick.kind {
	case opLock:
		ls := s.lockState(pick.lockKey)
		ls.writer = pick
		s.noteEdges(pick)
		pick.held = append(pick.held, pick.lockKey)
	case opRLock:
		ls := s.lockState(pick.lockKey)
		ls.readers[pick]++
		s.noteEdges(pick)
		pick.held = append(pick.held, pick.lockKey)
	}
	if s.Trace != nil {
		s.Trace("step %d: %s @ %s", s.Steps, pick.Label, pick.Site)
	}
	s.mu.Unlock()
	pick.wake <- struct{}{}
	return true
}

func (s *S) noteEdges(t *Task) {
	for range t.held {
		s.LockEdges[t.Site]++
	}
}

func (s *S) lockState(k uintptr) *lockState {
	ls := s.locks[k]
	if ls == nil {
		ls = &lockState{readers: map[*Task]int{}}
		s.locks[k] = ls
	}
	return ls
}

// Status classifies the tasks at a quiescent point where Step returned false.
type Status struct {
	Finished    []*Task
	LockBlocked []*Task // parked on a lock that no enabled task can release: deadlock
	RealBlocked []*Task // blocked in a real channel operation / select / WaitGroup after Site
}

func (s *S) Status() Status {
	synctest.Wait()
	s.mu.Lock()
	defer s.mu.Unlock()
	var st Status
	for _, t := range s.tasks {
		switch {
		case t.Done:
			st.Finished = append(st.Finished, t)
		case t.parked:
			st.LockBlocked = append(st.LockBlocked, t)
		default:
			st.RealBlocked = append(st.RealBlocked, t)
		}
	}
	return st
}

// Holder describes who holds the lock a task is parked on.
func (s *S) Holder(t *Task) string {
	s.mu.Lock()
	defer s.mu.Unlock()
	ls := s.locks[t.lockKey]
	if ls == nil {
		return "nobody"
	}
	if ls.writer != nil {
		return fmt.Sprintf("%s (acquired before %s)", ls.writer.Label, ls.writer.Site)
	}
	var out []string
	for r := range ls.readers {
		out = append(out, r.Label)
	}
	sort.Strings(out)
	return fmt.Sprintf("readers %v", out)
}

// Finish switches to free-run mode (every point becomes a no-op), releases all parked tasks and
// waits for the tasks started with Go to return. The caller must first make every blocked task
// able to return (cancel contexts, close channels).
func (s *S) Finish() {
	s.mu.Lock()
	s.free = true
	var rel []*Task
	for _, t := range s.tasks {
		if t.parked {
			t.parked = false
			rel = append(rel, t)
		}
	}
	s.mu.Unlock()
	for _, t := range rel {
		t.wake <- struct{}{}
	}
	active.CompareAndSwap(s, nil)
	s.wg.Wait()
}

// ---------------------------------------------------------------------------------------------
// helpers called by instrumented code

type locker interface {
	Lock()
	Unlock()
}
type rlocker interface {
	RLock()
	RUnlock()
}

// resolve finds the innermost pointer in the dereference chain of x that implements the wanted
// lock interface; its address is the lock identity.
func resolve(x any) (reflect.Value, uintptr) {
	v := reflect.ValueOf(x)
	var best reflect.Value
	for v.IsValid() {
		switch v.Kind() {
		case reflect.Interface:
			v = v.Elem()
			continue
		case reflect.Ptr:
			if v.IsNil() {
				return best, 0
			}
			if _, ok := v.Interface().(locker); ok {
				best = v
			}
			v = v.Elem()
			continue
		}
		break
	}
	if !best.IsValid() {
		return best, 0
	}
	return best, best.Pointer()
}

func current(site string) (*S, *Task) {
	s := active.Load()
	if s == nil {
		return nil, nil
	}
	s.mu.Lock()
	if s.free || goid() == s.exempt {
		// the harness main goroutine observes the system at quiescence (every task parked or blocked): it runs the
		// original operations and must never be parked itself
		s.mu.Unlock()
		return nil, nil
	}
	if s.abort {
		// tasks known before the abort exit here; any other goroutine (the harness main goroutine tearing the
		// system down) runs the original operations
		_, known := s.byGid[goid()]
		s.mu.Unlock()
		if known {
			runtime.Goexit()
		}
		return nil, nil
	}
	t := s.taskForCurrent("")
	s.mu.Unlock()
	return s, t
}

// Point is a plain scheduling point.
func Point(site string) {
	if s, t := current(site); s != nil {
		s.park(t, opPoint, 0, site)
	}
}

// Start is inserted as the first statement of `go func(){...}()` bodies.
func Start(site string) {
	if s, t := current(site); s != nil {
		s.park(t, opStart, 0, site)
	}
}

// End is deferred in the same bodies.
func End() {
	s := active.Load()
	if s == nil {
		return
	}
	g := goid()
	s.mu.Lock()
	if t, ok := s.byGid[g]; ok {
		t.Done = true
	}
	s.mu.Unlock()
}

func Lock(x any, site string) {
	v, key := resolve(x)
	if !v.IsValid() {
		panic("verifsim/sched: Lock on a value without Lock/Unlock: " + site)
	}
	l := v.Interface().(locker)
	s, t := current(site)
	if s == nil {
		l.Lock()
		return
	}
	s.park(t, opLock, key, site)
	l.Lock() // free by construction of the shadow state (all lockers of instrumented packages go through here)
}

// aborting reports the active scheduler when it is in abort mode, with the calling task (or nil).
func aborting() (*S, *Task) {
	s := active.Load()
	if s == nil {
		return nil, nil
	}
	s.mu.Lock()
	defer s.mu.Unlock()
	if !s.abort {
		return nil, nil
	}
	t, known := s.byGid[goid()]
	if !known {
		return nil, nil
	}
	return s, t
}

func holds(t *Task, key uintptr) bool {
	if t == nil {
		return false
	}
	for _, k := range t.held {
		if k == key {
			return true
		}
	}
	return false
}

func Unlock(x any, site string) {
	v, key := resolve(x)
	l := v.Interface().(locker)
	if s, t := aborting(); s != nil {
		// abort mode: a task that exits at a point where it had temporarily released a lock must not
		// unlock it again from its deferred calls; unlock only what the shadow state says it holds
		s.mu.Lock()
		h := holds(t, key)
		if h {
			dropHeld(t, key)
			if ls := s.locks[key]; ls != nil {
				ls.writer = nil
			}
		}
		s.mu.Unlock()
		if h {
			l.Unlock()
		}
		return
	}
	l.Unlock()
	s, t := current(site)
	if s == nil {
		return
	}
	s.mu.Lock()
	if ls := s.locks[key]; ls != nil {
		ls.writer = nil
	}
	dropHeld(t, key)
	s.mu.Unlock()
	s.park(t, opPoint, 0, site)
}

func RLock(x any, site string) {
	v, key := resolve(x)
	rl, ok := v.Interface().(rlocker)
	if !ok {
		panic("verifsim/sched: RLock on a value without RLock: " + site)
	}
	s, t := current(site)
	if s == nil {
		rl.RLock()
		return
	}
	s.park(t, opRLock, key, site)
	rl.RLock()
}

func RUnlock(x any, site string) {
	v, key := resolve(x)
	rl := v.Interface().(rlocker)
	if s, t := aborting(); s != nil {
		s.mu.Lock()
		h := holds(t, key)
		if h {
			dropHeld(t, key)
			if ls := s.locks[key]; ls != nil {
				delete(ls.readers, t)
			}
		}
		s.mu.Unlock()
		if h {
			rl.RUnlock()
		}
		return
	}
	rl.RUnlock()
	s, t := current(site)
	if s == nil {
		return
	}
	s.mu.Lock()
	if ls := s.locks[key]; ls != nil {
		if ls.readers[t] > 1 {
			ls.readers[t]--
		} else {
			delete(ls.readers, t)
		}
	}
	dropHeld(t, key)
	s.mu.Unlock()
	s.park(t, opPoint, 0, site)
}

func dropHeld(t *Task, key uintptr) {
	for i := len(t.held) - 1; i >= 0; i-- {
		if t.held[i] == key {
			t.held = append(t.held[:i], t.held[i+1:]...)
			return
		}
	}
}

// Case is one communication clause of a rewritten select.
type Case struct {
	dir reflect.SelectDir
	ch  reflect.Value
	val reflect.Value
}

func Recv(ch any) Case { return Case{dir: reflect.SelectRecv, ch: reflect.ValueOf(ch)} }
func Send(ch any, v any) Case {
	c := reflect.ValueOf(ch)
	var val reflect.Value
	if v == nil {
		val = reflect.Zero(c.Type().Elem())
	} else {
		val = reflect.ValueOf(v)
		if val.Type() != c.Type().Elem() {
			val = val.Convert(c.Type().Elem())
		}
	}
	return Case{dir: reflect.SelectSend, ch: c, val: val}
}

func (c Case) sel() reflect.SelectCase {
	if c.dir == reflect.SelectSend {
		return reflect.SelectCase{Dir: reflect.SelectSend, Chan: c.ch, Send: c.val}
	}
	return reflect.SelectCase{Dir: reflect.SelectRecv, Chan: c.ch}
}

// Select replaces a select statement: which READY case is taken is the scheduler's choice, not the
// runtime's; when none is ready the goroutine blocks for real on all cases (so a non-blocking
// sender only rendezvous with a receiver that is really parked in the runtime, as in production).
// It returns the index of the chosen case (-1 = default), the received value and the ok flag.
func Select(site string, hasDefault bool, cases ...Case) (int, any, bool) {
	s, t := current(site)
	if s == nil {
		return rawSelect(hasDefault, cases)
	}
	s.park(t, opPoint, 0, site)
	// try ready cases in a seeded order
	n := len(cases)
	order := make([]int, n)
	for i := range order {
		order[i] = i
	}
	s.mu.Lock()
	for i := 0; i < n-1; i++ {
		j := i + s.choose(n-i)
		order[i], order[j] = order[j], order[i]
	}
	s.mu.Unlock()
	for _, i := range order {
		if !cases[i].ch.IsValid() || cases[i].ch.IsNil() {
			continue
		}
		chosen, v, ok := reflect.Select([]reflect.SelectCase{cases[i].sel(), {Dir: reflect.SelectDefault}})
		if chosen == 0 {
			return i, valOf(v), ok
		}
	}
	if hasDefault {
		return -1, nil, false
	}
	s.mu.Lock()
	t.blockedS = "select@" + site
	s.mu.Unlock()
	i, v, ok := rawSelect(false, cases)
	s.park(t, opPoint, 0, site+"(woke)")
	return i, v, ok
}

func rawSelect(hasDefault bool, cases []Case) (int, any, bool) {
	sc := make([]reflect.SelectCase, 0, len(cases)+1)
	for _, c := range cases {
		if !c.ch.IsValid() {
			sc = append(sc, reflect.SelectCase{Dir: c.dir}) // nil channel: never ready
			continue
		}
		sc = append(sc, c.sel())
	}
	if hasDefault {
		sc = append(sc, reflect.SelectCase{Dir: reflect.SelectDefault})
	}
	i, v, ok := reflect.Select(sc)
	if hasDefault && i == len(cases) {
		return -1, nil, false
	}
	return i, valOf(v), ok
}

func valOf(v reflect.Value) any {
	if !v.IsValid() {
		return nil
	}
	return v.Interface()
}

// RecvVal converts the value returned by Select back to the element type of the channel.
func RecvVal[T any](ch <-chan T, v any) T {
	if v == nil {
		var z T
		return z
	}
	return v.(T)
}

// Blocking marks that the calling task is about to enter a real blocking operation (channel
// send/receive statement, WaitGroup.Wait); After is the point after it.
func Blocking(site string) {
	s, t := current(site)
	if s == nil {
		return
	}
	s.park(t, opPoint, 0, site)
	s.mu.Lock()
	t.blockedS = "op@" + site
	s.mu.Unlock()
}

func After(site string) {
	if s, t := current(site); s != nil {
		s.park(t, opPoint, 0, site+"(after)")
	}
}

// BlockedIn reports the blocking operation a non-parked, non-finished task entered last.
func (t *Task) BlockedIn() string { return t.blockedS }

// ---------------------------------------------------------------------------------------------

// Bubble runs f inside a testing/synctest bubble and converts a panic of the bubble (including
// synctest's "blocked goroutines remain" at the end of the bubble) into an error string.
func Bubble(t TestingT, f func()) (panicked string) {
	defer func() {
		if p := recover(); p != nil {
			panicked = fmt.Sprint(p)
			if os.Getenv("VERIF_DEBUG_DUMP") != "" {
				buf := make([]byte, 1<<20)
				buf = buf[:runtime.Stack(buf, true)]
				fmt.Fprintf(os.Stderr, "VERIF-DEBUG goroutines at bubble panic:\n%s\n", buf)
			}
		}
	}()
	runBubble(t, f)
	return ""
}

// SetMapSalt and SortedKeys: see package verifsimorder (seeded iteration order of maps).
func SetMapSalt(x uint64) { verifsimorder.SetMapSalt(x) }

// SortedKeys returns the keys of m in the run's seeded order.
func SortedKeys[M ~map[K]V, K comparable, V any](m M) []K { return verifsimorder.SortedKeys(m) }
