package sched

import (
	"testing"
	"testing/synctest"
)

// TestingT is the *testing.T of the enclosing test.
type TestingT = *testing.T

func runBubble(t *testing.T, f func()) {
	synctest.Test(t, func(*testing.T) { f() })
}
