// Package stream is the simulated byte stream (SimStream) used by the framing and handshake
// harnesses: the simulator decides how the stream is chunked into reads and where it fails.
package stream

import (
	"errors"
	"io"
)

// ErrInjected is the read/write error injected by the simulator.
var ErrInjected = errors.New("verifsim: injected stream error")

// Reader delivers Data in chunks chosen by Chunk (called once per Read, result clamped to
// [1,len(p)]); at byte offset FailAt (if >= 0) it returns FailErr instead of data.
type Reader struct {
	Data    []byte
	Off     int
	Chunk   func() int
	FailAt  int
	FailErr error
	Reads   int
	MaxReq  int // largest len(p) requested by the consumer
}

func (r *Reader) Read(p []byte) (int, error) {
	r.Reads++
	if len(p) > r.MaxReq {
		r.MaxReq = len(p)
	}
	if r.FailAt >= 0 && r.Off >= r.FailAt {
		return 0, r.FailErr
	}
	if r.Off >= len(r.Data) {
		return 0, io.EOF
	}
	if len(p) == 0 {
		return 0, nil
	}
	n := len(p)
	if r.Chunk != nil {
		if c := r.Chunk(); c >= 1 && c < n {
			n = c
		}
	}
	if rem := len(r.Data) - r.Off; n > rem {
		n = rem
	}
	if r.FailAt >= 0 && r.Off+n > r.FailAt {
		n = r.FailAt - r.Off
	}
	copy(p, r.Data[r.Off:r.Off+n])
	r.Off += n
	return n, nil
}

// Writer accepts bytes until FailAt (if >= 0) bytes were written, then performs a short write
// with ErrInjected (the io.Writer contract for a failing write).
type Writer struct {
	Buf    []byte
	FailAt int
	Writes int
}

func (w *Writer) Write(p []byte) (int, error) {
	w.Writes++
	if w.FailAt >= 0 && len(w.Buf)+len(p) > w.FailAt {
		n := w.FailAt - len(w.Buf)
		if n < 0 {
			n = 0
		}
		w.Buf = append(w.Buf, p[:n]...)
		return n, ErrInjected
	}
	w.Buf = append(w.Buf, p...)
	return len(p), nil
}
