//go:build verif

// Package verifsimorder gives range statements over maps a seeded iteration order. It is injected through the
// build overlay only (into the weshnet module, where files of weshnet AND of go-orbit-db / go-ipfs-log rewritten
// by the instrumenter import it); it has no dependency besides the standard library.
package verifsimorder

import (
	"bytes"
	"crypto/sha256"
	"encoding/binary"
	"fmt"
	"reflect"
	"sort"
	"sync/atomic"
)

// Map iteration order. The Go runtime starts every map iteration at a random offset that cannot
// be seeded. Range statements over maps in files that go through the instrumenter are rewritten to
// iterate over SortedKeys: the order is a pure function of the per-run salt and the key bytes,
// so it is repeatable for one seed and differs between seeds (the order is one more seeded choice).

var mapSalt atomic.Uint64

// UncontrolledRanges counts iterations whose keys have no stable byte representation (pointers).
var UncontrolledRanges atomic.Int64

// SetMapSalt sets the per-run salt of map iteration orders (0: plain order of the key bytes).
func SetMapSalt(x uint64) { mapSalt.Store(x) }

func keyBytes(k any) ([]byte, bool) {
	switch v := k.(type) {
	case string:
		return []byte(v), true
	case interface{ Raw() ([]byte, error) }:
		if b, err := v.Raw(); err == nil {
			return b, true
		}
	}
	rv := reflect.ValueOf(k)
	switch rv.Kind() {
	case reflect.Int, reflect.Int8, reflect.Int16, reflect.Int32, reflect.Int64:
		var b [8]byte
		binary.BigEndian.PutUint64(b[:], uint64(rv.Int()))
		return b[:], true
	case reflect.Uint, reflect.Uint8, reflect.Uint16, reflect.Uint32, reflect.Uint64, reflect.Uintptr:
		var b [8]byte
		binary.BigEndian.PutUint64(b[:], rv.Uint())
		return b[:], true
	case reflect.Bool:
		if rv.Bool() {
			return []byte{1}, true
		}
		return []byte{0}, true
	case reflect.String:
		return []byte(rv.String()), true
	case reflect.Array:
		if rv.Type().Elem().Kind() == reflect.Uint8 {
			b := make([]byte, rv.Len())
			for i := range b {
				b[i] = byte(rv.Index(i).Uint())
			}
			return b, true
		}
	case reflect.Ptr, reflect.Chan, reflect.UnsafePointer, reflect.Func:
		return []byte(fmt.Sprintf("%p", k)), false
	}
	return []byte(fmt.Sprintf("%#v", k)), rv.Kind() != reflect.Interface
}

// SortedKeys returns the keys of m in the run's seeded order.
func SortedKeys[M ~map[K]V, K comparable, V any](m M) []K {
	type kk struct {
		k K
		h [32]byte
	}
	salt := mapSalt.Load()
	var sb [8]byte
	binary.BigEndian.PutUint64(sb[:], salt)
	ks := make([]kk, 0, len(m))
	for k := range m {
		b, ok := keyBytes(any(k))
		if !ok {
			UncontrolledRanges.Add(1)
		}
		var h [32]byte
		if salt == 0 {
			copy(h[:], b) // plain order of the (first 32) key bytes
			if len(b) > 32 {
				h = sha256.Sum256(b)
			}
		} else {
			h = sha256.Sum256(append(append([]byte(nil), sb[:]...), b...))
		}
		ks = append(ks, kk{k, h})
	}
	sort.Slice(ks, func(i, j int) bool { return bytes.Compare(ks[i].h[:], ks[j].h[:]) < 0 })
	out := make([]K, len(ks))
	for i, e := range ks {
		out[i] = e.k
	}
	return out
}
