// Package kernel is the shared core of the deterministic-simulation harnesses:
// one seeded choice source (rapid), a hashed event trace, fault/probe counters,
// violation reporting with known-finding signatures, and per-process statistics
// that the driver (/verif/check) merges into the evidence file.
//
// It is injected into the repo module through a build overlay as
// berty.tech/weshnet/v2/internal/verifsim/kernel; nothing of it is committed to /repo.
package kernel

import (
	"crypto/sha256"
	"encoding/hex"
	"encoding/json"
	"fmt"
	"os"
	"sort"
	"strings"
	"sync"
	"testing"
	"time"

	"pgregory.net/rapid"
)

// ---------------------------------------------------------------------------------------------
// process-wide statistics

type stats struct {
	mu           sync.Mutex
	Property     string            `json:"property"`
	Runs         int               `json:"runs"`
	Nontrivial   int               `json:"nontrivial"`
	Fingerprints map[string]int    `json:"fingerprints"` // fp -> count (nontrivial runs only)
	States       map[string]int    `json:"states"`       // distinct observed state digests
	Faults       map[string]int    `json:"faults"`
	Probes       map[string]int    `json:"probes"`
	Known        map[string]int    `json:"known"` // known-finding signature -> hits
	KnownText    map[string]string `json:"known_text"`
	Steps        int64             `json:"steps"`
	SimNanos     int64             `json:"sim_nanos"`
	Samples      []sample          `json:"samples"`
	Components   map[string]string `json:"components"`
	Extra        map[string]any    `json:"extra"`
	Failure      *failure          `json:"failure,omitempty"`
}

type sample struct {
	Fingerprint string   `json:"fingerprint"`
	Faults      []string `json:"faults"`
	Trace       []string `json:"trace"`
}

type failure struct {
	Oracle      string   `json:"oracle"`
	Signature   string   `json:"signature"`
	Message     string   `json:"message"`
	Fingerprint string   `json:"fingerprint"`
	Trace       []string `json:"trace"`
}

var global = &stats{
	Fingerprints: map[string]int{},
	States:       map[string]int{},
	Faults:       map[string]int{},
	Probes:       map[string]int{},
	Known:        map[string]int{},
	KnownText:    map[string]string{},
	Components:   map[string]string{},
	Extra:        map[string]any{},
}

const maxFingerprints = 400000

var (
	knownOnce sync.Once
	knownSigs map[string]string // signature -> description
)

func loadKnown() {
	knownSigs = map[string]string{}
	path := os.Getenv("VERIF_KNOWN")
	if path == "" {
		return
	}
	b, err := os.ReadFile(path)
	if err != nil {
		return
	}
	var doc struct {
		Findings []struct {
			Property  string `json:"property"`
			Signature string `json:"signature"`
			What      string `json:"what"`
		} `json:"findings"`
	}
	if json.Unmarshal(b, &doc) != nil {
		return
	}
	for _, f := range doc.Findings {
		knownSigs[f.Property+"|"+f.Signature] = f.What
	}
}

// Component records whether a component ran real code or a stub (goes to the evidence file).
func Component(name, how string) {
	global.mu.Lock()
	global.Components[name] = how
	global.mu.Unlock()
}

// Extra stores an arbitrary key in the statistics (last writer wins).
func Extra(key string, v any) {
	global.mu.Lock()
	global.Extra[key] = v
	global.mu.Unlock()
}

// ExtraAdd adds n to an integer counter kept in the statistics.
func ExtraAdd(key string, n int64) {
	global.mu.Lock()
	cur, _ := global.Extra[key].(int64)
	global.Extra[key] = cur + n
	global.mu.Unlock()
}

func writeStats() {
	path := os.Getenv("VERIF_STATS")
	if path == "" {
		return
	}
	global.mu.Lock()
	defer global.mu.Unlock()
	b, err := json.Marshal(global)
	if err != nil {
		fmt.Fprintf(os.Stderr, "VERIF-INFRA cannot marshal stats: %v\n", err)
		return
	}
	_ = os.WriteFile(path, b, 0o644)
}

// ---------------------------------------------------------------------------------------------
// one simulated run

// Run is one simulated execution: every decision is drawn from RT (directly, outside a
// synctest bubble) or from the pre-drawn word pool (inside a bubble / scheduler).
type Run struct {
	RT       *rapid.T
	Property string

	words []uint16
	wi    int
	ext   uint64

	h          [32]byte
	hn         int
	trace      []string
	traceDrops int
	faults     map[string]int
	probes     map[string]int
	states     []string
	nontrivial bool
	steps      int64
	simNanos   int64

	fail      *failure
	knownHit  bool
	infra     string
	startReal time.Time
}

const maxTraceLines = 400

// Logf appends one line to the run trace; every line enters the fingerprint.
// It never draws a choice and never reads a clock.
func (r *Run) Logf(format string, args ...any) {
	line := fmt.Sprintf(format, args...)
	sum := sha256.Sum256(append(r.h[:], line...))
	r.h = sum
	r.hn++
	if len(r.trace) < maxTraceLines {
		r.trace = append(r.trace, line)
	} else {
		r.traceDrops++
	}
}

// Fault counts a fault that actually fired and makes the run non-trivial.
func (r *Run) Fault(kind string) {
	r.faults[kind]++
	r.nontrivial = true
}

// Probe counts a rare condition that was reached.
func (r *Run) Probe(name string) { r.probes[name]++ }

// Nontrivial marks the run as non-trivial by the check's own rule.
func (r *Run) Nontrivial() { r.nontrivial = true }

// Step counts simulator steps (events, scheduler decisions).
func (r *Run) Step() { r.steps++ }

// SimTime accounts simulated time covered by this run.
func (r *Run) SimTime(d time.Duration) { r.simNanos += int64(d) }

// State records a digest of an observed (quiescent) state.
func (r *Run) State(digest string) {
	if len(r.states) < 64 {
		r.states = append(r.states, digest)
	}
}

// Fingerprint is the hash of the trace so far.
func (r *Run) Fingerprint() string { return hex.EncodeToString(r.h[:8]) }

// Words pre-draws a pool of n choice words from rapid. Must be called outside a bubble.
func (r *Run) Words(n int) {
	r.words = rapid.SliceOfN(rapid.Uint16(), n, n).Draw(r.RT, "words")
	r.wi = 0
}

// Choose returns a choice in [0,n) from the word pool; all-zero words give the canonical
// (first-candidate) execution. When the pool is exhausted it is extended by a counter-mode
// mix of the pool, so the run stays a pure function of the drawn data.
func (r *Run) Choose(n int) int {
	if n <= 1 {
		return 0
	}
	var w uint64
	if r.wi < len(r.words) {
		w = uint64(r.words[r.wi])
		r.wi++
	} else {
		r.ext++
		x := r.ext*0x9E3779B97F4A7C15 + uint64(len(r.words))
		for _, v := range r.words[:min(len(r.words), 16)] {
			x = (x ^ uint64(v)) * 0xBF58476D1CE4E5B9
		}
		x ^= x >> 31
		x *= 0x94D049BB133111EB
		x ^= x >> 29
		w = x
	}
	return int(w % uint64(n))
}

// Chance returns true with probability num/den drawn from the word pool (zero word = false).
func (r *Run) Chance(num, den int) bool {
	if num <= 0 {
		return false
	}
	return r.Choose(den) >= den-num
}

// Failed reports whether a violation (new or known) or an infrastructure error ended the run.
func (r *Run) Failed() bool { return r.fail != nil || r.knownHit || r.infra != "" }

// Violate records a violation of the property. signature is the normalised witness used to match
// known findings (oracle + shape, no run-specific bytes). It returns after recording; callers stop
// the run (check Failed()).
func (r *Run) Violate(oracle, signature, format string, args ...any) {
	if r.Failed() {
		return
	}
	knownOnce.Do(loadKnown)
	signature = strings.Map(func(c rune) rune {
		if c == ' ' || c == '\t' || c == '\n' {
			return '_'
		}
		return c
	}, signature)
	msg := fmt.Sprintf(format, args...)
	key := r.Property + "|" + signature
	if what, ok := knownSigs[key]; ok {
		r.knownHit = true
		global.mu.Lock()
		global.Known[signature]++
		global.KnownText[signature] = what
		global.mu.Unlock()
		return
	}
	r.Logf("VIOLATION oracle=%s sig=%s: %s", oracle, signature, msg)
	r.fail = &failure{Oracle: oracle, Signature: signature, Message: msg}
}

// Infra records a harness/infrastructure problem (never a violation): the process exits 2.
func (r *Run) Infra(format string, args ...any) {
	if r.infra == "" {
		r.infra = fmt.Sprintf(format, args...)
	}
}

func (r *Run) finish() {
	fp := r.Fingerprint()
	if p := os.Getenv("VERIF_TRACE_ALL"); p != "" {
		if f, err := os.OpenFile(p, os.O_APPEND|os.O_CREATE|os.O_WRONLY, 0o644); err == nil {
			fmt.Fprintf(f, "RUN %s\n%s\n", fp, strings.Join(r.trace, "\n"))
			f.Close()
		}
	}
	global.mu.Lock()
	global.Runs++
	global.Steps += r.steps
	global.SimNanos += r.simNanos
	for k, v := range r.faults {
		global.Faults[k] += v
	}
	for k, v := range r.probes {
		global.Probes[k] += v
	}
	for _, s := range r.states {
		if len(global.States) < maxFingerprints {
			global.States[s]++
		}
	}
	if r.nontrivial {
		global.Nontrivial++
		if _, ok := global.Fingerprints[fp]; ok || len(global.Fingerprints) < maxFingerprints {
			global.Fingerprints[fp]++
		}
		if len(global.Samples) < 3 && global.Fingerprints[fp] == 1 {
			global.Samples = append(global.Samples, sample{Fingerprint: fp, Faults: sortedKeys(r.faults), Trace: clip(r.trace, 80)})
		}
	} else if len(global.Samples) == 0 {
		global.Samples = append(global.Samples, sample{Fingerprint: fp, Faults: sortedKeys(r.faults), Trace: clip(r.trace, 80)})
	}
	global.mu.Unlock()
}

func clip(s []string, n int) []string {
	if len(s) <= n {
		return append([]string(nil), s...)
	}
	out := append([]string(nil), s[:n]...)
	return append(out, fmt.Sprintf("... (%d more lines)", len(s)-n))
}

func sortedKeys(m map[string]int) []string {
	out := make([]string, 0, len(m))
	for k, v := range m {
		out = append(out, fmt.Sprintf("%s=%d", k, v))
	}
	sort.Strings(out)
	return out
}

// Check runs prop under rapid: one call of prop is one simulated run. The property function must
// call r.Violate for violations and return; panics of the code under test escaping to the main
// goroutine are reported as violations of oracle "panic" by rapid itself.
func Check(t *testing.T, property string, prop func(r *Run)) {
	global.mu.Lock()
	global.Property = property
	global.mu.Unlock()
	t.Cleanup(writeStats)
	rapid.Check(t, func(rt *rapid.T) {
		r := &Run{RT: rt, Property: property, faults: map[string]int{}, probes: map[string]int{}}
		prop(r)
		if r.infra != "" {
			fmt.Fprintf(os.Stdout, "VERIF-INFRA property=%s %s\n", property, r.infra)
			writeStats()
			os.Exit(2)
		}
		if r.fail != nil {
			r.fail.Fingerprint = r.Fingerprint()
			r.fail.Trace = clip(r.trace, maxTraceLines)
			global.mu.Lock()
			global.Failure = r.fail
			global.mu.Unlock()
			if p := os.Getenv("VERIF_TRACE_OUT"); p != "" {
				b, _ := json.MarshalIndent(r.fail, "", " ")
				_ = os.WriteFile(p, b, 0o644)
			}
			if p := os.Getenv("VERIF_TRACE_ALL"); p != "" {
				if f, err := os.OpenFile(p, os.O_APPEND|os.O_CREATE|os.O_WRONLY, 0o644); err == nil {
					fmt.Fprintf(f, "RUN %s FAILED\n%s\n", r.Fingerprint(), strings.Join(r.trace, "\n"))
					f.Close()
				}
			}
			rt.Fatalf("VERIF-FAIL property=%s oracle=%s sig=%s fp=%s :: %s", property, r.fail.Oracle,
				r.fail.Signature, r.fail.Fingerprint, oneLine(r.fail.Message))
		}
		r.finish()
	})
}

func oneLine(s string) string {
	s = strings.ReplaceAll(s, "\n", " | ")
	if len(s) > 600 {
		s = s[:600] + "..."
	}
	return s
}

// ---------------------------------------------------------------------------------------------
// small drawing helpers (outside bubbles)

func (r *Run) Int(label string, lo, hi int) int { return rapid.IntRange(lo, hi).Draw(r.RT, label) }
func (r *Run) Bool(label string) bool           { return rapid.Bool().Draw(r.RT, label) }
func (r *Run) Bytes(label string, lo, hi int) []byte {
	return rapid.SliceOfN(rapid.Byte(), lo, hi).Draw(r.RT, label)
}
func (r *Run) Uint64(label string) uint64 { return rapid.Uint64().Draw(r.RT, label) }

// Pick draws an index into a list of n alternatives (0 is the simplest).
func (r *Run) Pick(label string, n int) int { return rapid.IntRange(0, n-1).Draw(r.RT, label) }

// DetBytes expands a seed into n deterministic pseudo-random bytes (cheap payload generator that
// keeps rapid's bitstream small).
func DetBytes(seed uint64, n int) []byte {
	out := make([]byte, n)
	x := seed
	for i := 0; i < n; i += 8 {
		x += 0x9E3779B97F4A7C15
		z := x
		z = (z ^ (z >> 30)) * 0xBF58476D1CE4E5B9
		z = (z ^ (z >> 27)) * 0x94D049BB133111EB
		z ^= z >> 31
		for j := 0; j < 8 && i+j < n; j++ {
			out[i+j] = byte(z >> (8 * j))
		}
	}
	return out
}

// NewDebugRun returns a Run that is not attached to a rapid check (ad-hoc debugging tests only): every choice is 0.
func NewDebugRun() *Run { return &Run{faults: map[string]int{}, probes: map[string]int{}} }
