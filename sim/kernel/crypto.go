package kernel

import (
	cryptorand "crypto/rand"
	"encoding/binary"
	"io"
	mathrand "math/rand/v2"
	"sync"
	"testing"
	_ "unsafe"

	"berty.tech/weshnet/v2/internal/verifsim/sched"
)

// Deterministic cryptographic randomness: the same mechanism as testing/cryptotest.SetGlobalRandom
// (crypto/internal/rand.SetTestingReader + crypto/rand.Reader), but resettable per simulated run
// without registering one cleanup per run. Keys, nonces and therefore CIDs are a pure function of
// the run's drawn seed.

//go:linkname randSetTestingReader crypto/internal/rand.SetTestingReader
func randSetTestingReader(r io.Reader)

type detReader struct {
	mu sync.Mutex
	r  *mathrand.ChaCha8
	n  int64
}

func (d *detReader) Read(b []byte) (int, error) {
	d.mu.Lock()
	defer d.mu.Unlock()
	d.n += int64(len(b))
	return d.r.Read(b)
}

var (
	cryptoOnce   sync.Once
	cryptoReader = &detReader{r: mathrand.NewChaCha8([32]byte{})}
)

// InstallCrypto installs the deterministic reader for the duration of test t (not parallel-safe).
func InstallCrypto(t *testing.T) {
	cryptoOnce.Do(func() {
		prev := cryptorand.Reader
		randSetTestingReader(cryptoReader)
		cryptorand.Reader = cryptoReader
		t.Cleanup(func() {
			cryptorand.Reader = prev
			randSetTestingReader(nil)
		})
	})
}

// SeedCrypto resets the deterministic randomness stream to the given seed.
func SeedCrypto(seed uint64) {
	var s [32]byte
	binary.LittleEndian.PutUint64(s[:8], seed)
	s[8] = 0x5a
	cryptoReader.mu.Lock()
	cryptoReader.r = mathrand.NewChaCha8(s)
	cryptoReader.n = 0
	cryptoReader.mu.Unlock()
	// the same drawn value decides the iteration order of maps in files that went through the instrumenter
	sched.SetMapSalt(seed | 1)
}

// CryptoBytesRead reports how many random bytes the run consumed (enters no decision).
func CryptoBytesRead() int64 {
	cryptoReader.mu.Lock()
	defer cryptoReader.mu.Unlock()
	return cryptoReader.n
}
